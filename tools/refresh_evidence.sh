#!/bin/bash
# reruns every claimed quick check on the current tree so that the committed evidence comes from clean runs
cd /verif
rc=0
for p in $(python3 -c "import json;print(' '.join(c['property_id'] for c in json.load(open('/verif/MANIFEST.json'))['checks']))"); do
  out=$(./bin/govc check -property $p -tier quick); r=$?; echo "$out" | tail -1; [ $r -ne 0 ] && { echo "$out" | grep VIOL | cut -c1-300; rc=1; }
done
./validate.sh | grep -v " ok$"
exit $rc
