#!/bin/bash
# reruns every claimed quick check on the current tree so that the committed evidence comes from clean runs
cd /verif
rc=0
for p in $(python3 -c "import json;print(' '.join(c['property_id'] for c in json.load(open('/verif/MANIFEST.json'))['checks']))"); do
  ./bin/govc check -property $p -tier quick | tail -1 || rc=1
done
./validate.sh | grep -v " ok$"
exit $rc
