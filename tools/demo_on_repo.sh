#!/bin/bash
# demo_on_repo.sh <seeded-dir>: applies the seeded patch to /repo (must be clean), runs its demo against /repo
# through a rewritten overlay, restores /repo. Tells whether the seeded change still breaks behaviour on the CURRENT tree.
export GOFLAGS=-mod=mod GOPROXY=off GOSUMDB=off GOTOOLCHAIN=local
D=$1
if [ -n "$(git -C /repo status --porcelain)" ]; then echo "/repo dirty"; exit 2; fi
WT=$(grep -o '/tmp/seed-C[0-9]*' $D/ov.json | head -1)
SW=$(grep -o '/tmp/seedwork-C[0-9]*/[0-9]*' $D/ov.json | head -1)
T=$(mktemp -d)
sed -e "s#$WT#/repo#g" -e "s#$SW#$D#g" -e "s#/tmp/seedtools/quicstub#/verif/replay/quicstub#g" $D/ov.json > $T/ov.json
CMD=$(grep "go test" $D/run.sh | tail -1 | sed -e "s#$WT#/repo#g" -e "s#$SW/ov.json#$T/ov.json#g" -e "s#$SW#$D#g")
git -C /repo apply $D/patch.diff || { echo "patch does not apply"; rm -rf $T; exit 2; }
( eval "$CMD" ) > $T/out.txt 2>&1; rc=$?
git -C /repo checkout -- .
tail -5 $T/out.txt
rm -rf $T
echo "demo on patched /repo: rc=$rc (non-zero = the seeded change still breaks the demo on the current tree)"
