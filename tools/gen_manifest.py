#!/usr/bin/env python3
"""Regenerates /verif/MANIFEST.json from the table below (claimed properties) and properties.jsonl."""
import json, subprocess
props = [json.loads(l) for l in open('/verif/properties.jsonl')]
env = "GOFLAGS=-mod=mod GOPROXY=off GOSUMDB=off GOTOOLCHAIN=local"
CLAIMED = json.load(open('/verif/tools/claimed.json'))
NA = json.load(open('/verif/tools/not_applicable.json'))
hook_commits = subprocess.run(["git", "-C", "/repo", "log", "--format=%h %s"], capture_output=True, text=True).stdout.splitlines()
hook_commits = [l.split()[0] for l in hook_commits if l.split(" ", 1)[1].startswith("verif:")]
m = {
 "version": 1,
 "setup_cmd": f"cd /verif/engine && {env} go build -o /verif/bin/govc .",
 "hooks": {"guard": "verif",
           "enable": "the engine loads /repo with -tags=verif; the only guarded files are comment-only contracts_verif.go files (//go:build verif), so there is no executable hook code; replays inject tests and the QUIC stub with `go test -overlay` and never write into /repo",
           "baseline_off_cmd": "cd /repo && go test -json -vet=off -count=1 -timeout 25m ./...",
           "source_commits": hook_commits, "add_only": True},
 "engines": [{"name": "govc", "path": "/verif/engine", "serves_properties": sorted(CLAIMED),
              "kind_free_text": "contract-based deductive verifier for Go written for this task: contracts as //@ comments keyed by function name, verification conditions generated from go/ssa (x/tools v0.29.0) of /repo's current working tree on every run, discharged by z3 5.1.0 / z3 4.8.12 / cvc5 1.0.3; must-fail canary corpus and replay of failed obligations against the real code via go test -overlay"}],
 "checks": [], "not_applicable": [],
 "notes": "quick = every obligation of the property with a 30 s per-obligation solver budget (vacuity probes 6 s) and the bounded stand-ins at their quick bound; thorough = 90 s budget, every unsat confirmed by a second solver, bounded stand-ins at their thorough bound, plus the must-fail canary corpus of the property (a canary that is not handled as expected makes the run exit 2 = broken check, never a VIOLATION). Exit 0 = held (KNOWN-FINDING lines for listed open findings), 1 = VIOLATION, 2 = the check itself is broken."
}
for p in props:
    i = p['id']
    if i in CLAIMED:
        c = CLAIMED[i]
        m["checks"].append({
            "property_id": i,
            "quick_cmd": f"cd /verif && ./bin/govc check -property {i} -tier quick",
            "thorough_cmd": f"cd /verif && ./bin/govc check -property {i} -tier thorough",
            "evidence_file": f"/verif/evidence/{i}.json",
            "engine": "govc",
            "replay_cmd_template": "cd /verif && ./bin/govc replay -match {path}",
            "level_claimed": {"category": "proof", "text": c["text"], "design_ref": c.get("ref", "DESIGN.md section 7 / " + i)},
            "level_note": c["note"],
            "technique": "contract-based deductive verification of the real code (function contracts, VCs over go/ssa, SMT)"})
    else:
        m["not_applicable"].append({"property_id": i, "reason": NA.get(i, "not yet under contract in this revision (work in progress, see DESIGN.md)")})
json.dump(m, open('/verif/MANIFEST.json', 'w'), indent=1)
print("claimed:", sorted(CLAIMED), "not applicable:", [x["property_id"] for x in m["not_applicable"]])
