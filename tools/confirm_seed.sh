#!/bin/bash
# confirm_seed.sh <PROP> <k>: independently re-confirms a seeded change delivered under /tmp/seedwork-<PROP>/<k>
# in the scratch worktree /tmp/seed-<PROP>: (1) builds with the change, (2) baseline suite passes with the change,
# (3) demo fails with the change, (4) demo passes without it. Prints CONFIRMED or the failing step.
export GOFLAGS=-mod=mod GOPROXY=off GOSUMDB=off GOTOOLCHAIN=local
P=$1; K=$2; R=${SEEDROUND:-}; WT=/tmp/seed$R-$P; D=/tmp/seedwork$R-$P/$K
git -C $WT checkout -q -- . && git -C $WT clean -qfd
( $D/run.sh > $D/confirm_pristine.txt 2>&1 ); rc0=$?
git -C $WT apply $D/patch.diff || { echo "$P/$K: patch does not apply"; exit 1; }
PKGS=$(cd $WT && go list ./... 2>/dev/null | grep -v /examples | grep -v socket/example | grep -v /bench)
( cd $WT && go build $PKGS > $D/confirm_build.txt 2>&1 ); rcb=$?
( cd $WT && go test -vet=off -count=1 ./codec/... ./mixer/websocket/websocket/... ./socket ./utils/... ./xfer ./xfer/gzip > $D/confirm_suite.txt 2>&1 ); rcs=$?
( $D/run.sh > $D/confirm_patched.txt 2>&1 ); rc1=$?
git -C $WT checkout -q -- . && git -C $WT clean -qfd
if [ $rc0 -eq 0 ] && [ $rcb -eq 0 ] && [ $rcs -eq 0 ] && [ $rc1 -ne 0 ]; then echo "$P/$K: CONFIRMED"; else echo "$P/$K: NOT confirmed (pristine demo rc=$rc0 build rc=$rcb suite rc=$rcs patched demo rc=$rc1)"; fi
