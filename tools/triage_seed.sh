#!/bin/bash
# triage_seed.sh <PROP> <k> <check-prop...>: developer triage of a delivered seed in its scratch worktree (GOVC_REPO),
# so that several seeds can be tried in parallel; the recorded result comes from tools/import_seed.py (applies to /repo).
export GOFLAGS=-mod=mod GOPROXY=off GOSUMDB=off GOTOOLCHAIN=local
P=$1; K=$2; shift; shift; R=${SEEDROUND:-}; WT=/tmp/seed$R-$P; D=/tmp/seedwork$R-$P/$K
git -C $WT checkout -q -- . ; git -C $WT apply $D/patch.diff || { echo "$P/$K patch does not apply"; exit 1; }
CF=${CONTRACTS_FROM:-/repo}; (cd $CF && git ls-files "*contracts_verif.go" | while read f; do cp $CF/$f $WT/$f; done)
for c in "$@"; do (cd /verif && GOVC_REPO=$WT ${GOVC_BIN:-./bin/govc} check -property $c -tier quick 2>&1 | grep -E "VIOLATION|BROKEN|quick:" | cut -c1-330 | sed "s|^|$P/$K [$c] |"); done
git -C $WT checkout -q -- .
