#!/bin/bash
# try_seed.sh <PROP> <dir-with-patch.diff> [check-prop...]: applies the patch to /repo, runs the quick checks, restores /repo.
P=$1; D=$2; shift; shift; CHECKS=${@:-$P}
if [ -n "$(git -C /repo status --porcelain)" ]; then echo "/repo is dirty: commit first"; exit 1; fi
EVB=$(mktemp -d); cp -r /verif/evidence/. $EVB/ 2>/dev/null
cd /repo && git apply $D/patch.diff || { echo "patch does not apply to /repo"; exit 1; }
for c in $CHECKS; do (cd /verif && ./bin/govc check -property $c -tier quick 2>&1 | grep -E "VIOLATION|BROKEN|KNOWN|quick:" | cut -c1-300); done
cd /repo && git checkout -- . 
cp -r $EVB/. /verif/evidence/ 2>/dev/null; rm -rf $EVB
git -C /repo status --short | head -3
