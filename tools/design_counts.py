#!/usr/bin/env python3
"""Rewrites the "N functions, M obligations[, K known finding(s)]" figures of DESIGN.md section 7 from /verif/evidence/*.json."""
import json, re
p = '/verif/DESIGN.md'
s = open(p).read()
def repl(m):
    pid = m.group(1)
    try:
        c = json.load(open(f'/verif/evidence/{pid}.json'))['coverage']
    except Exception:
        return m.group(0)
    nf = len(c['functions_under_contract']) if isinstance(c['functions_under_contract'], list) else c['functions_under_contract']
    txt = f"{nf} functions, {c['discharged']} obligations"
    return m.group(2) + txt
s2 = re.sub(r'(?s)(?<=\n)(\*\*(C\d\d) — [^*]*\*\*\s+)\d+ functions,\s+\d+\s+obligations', lambda m: m.group(1) + (lambda c: f"{len(c['functions_under_contract']) if isinstance(c['functions_under_contract'], list) else c['functions_under_contract']} functions, {c['discharged']} obligations")(json.load(open(f"/verif/evidence/{m.group(2)}.json"))['coverage']), s)
open(p, 'w').write(s2)
print("changed" if s2 != s else "unchanged")
