#!/usr/bin/env python3
"""import_seed.py PROP K [check-props...]: confirm a delivered seeded change (build, baseline suite, demo fails with /
passes without, all in the scratch worktree /tmp/seed-PROP), run the registered quick checks against it in /repo
(apply, run, restore), and store it under /verif/seeded/PROP-K/ with meta.json."""
import json, os, shutil, subprocess, sys
prop, k = sys.argv[1], sys.argv[2]
checks = sys.argv[3:] or [prop]
rnd = os.environ.get("SEEDROUND", "")
src = f"/tmp/seedwork{rnd}-{prop}/{k}"
knum = k if not rnd else str(int(k) + (7 if rnd == "6" else 5 if rnd in ("4", "5") else 3))
if os.environ.get("IMPORT_CONFIRMED_ALREADY") != "1":  # set only after a tools/confirm_seed.sh run of this seed said CONFIRMED
    r = subprocess.run(["/verif/tools/confirm_seed.sh", prop, k], capture_output=True, text=True)
    print(r.stdout.strip())
    if "CONFIRMED" not in r.stdout:
        sys.exit(1)
r2 = subprocess.run(["/verif/tools/try_seed.sh", prop, src] + checks, capture_output=True, text=True)
print(r2.stdout.strip())
dst = f"/verif/seeded/{prop}-{knum}"
os.makedirs(dst, exist_ok=True)
for f in ["patch.diff", "demo_test.go", "ov.json", "run.sh", "result.txt"]:
    if os.path.exists(f"{src}/{f}"):
        shutil.copy(f"{src}/{f}", dst)
for f in os.listdir(src):
    if f.endswith("_test.go") or f.endswith(".go"):
        shutil.copy(f"{src}/{f}", dst)
meta = json.load(open(f"{src}/meta.json"))
viol = [l for l in r2.stdout.splitlines() if l.startswith("VIOLATION")]
meta.update({
    "breaks_property": prop,
    "confirmed_by": "tools/confirm_seed.sh: go build of the non-example packages OK with the change; baseline suite (codec, websocket, socket, utils, xfer) passes with the change; demo FAILS with the change and PASSES on the pristine worktree (scratch worktree /tmp/seed%s-%s, removed afterwards)" % (rnd, prop),
    "checks_run": ["./bin/govc check -property %s -tier quick" % c for c in checks],
    "detected": bool(viol),
    "detected_by": [v.split("obligation=")[1].split(" verdict")[0].strip('"') for v in viol if "obligation=" in v],
    "note": "demo paths refer to the scratch worktree /tmp/seed%s-%s used at creation time" % (rnd, prop),
})
json.dump(meta, open(f"{dst}/meta.json", "w"), indent=1)
print("stored", dst, "detected" if viol else "MISSED")
