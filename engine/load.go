package main

import (
	"fmt"
	"go/ast"
	"go/types"
	"os"
	"path/filepath"
	"sort"
	"strings"

	"golang.org/x/tools/go/ast/astutil"
	"golang.org/x/tools/go/packages"
	"golang.org/x/tools/go/ssa"
	"golang.org/x/tools/go/ssa/ssautil"
)

// RepoDir is the tree under verification. Always the live working tree.
var RepoDir = "/repo"

func init() {
	// developer option (never set by the registered commands): point the engine at a
	// scratch worktree of /repo, e.g. to try a seeded change while /repo is in use
	if d := os.Getenv("GOVC_REPO"); d != "" {
		RepoDir = d
	}
}

const ModPath = "github.com/henrylee2cn/erpc/v6"

// Program is the loaded, SSA-built view of /repo (current working tree).
type Program struct {
	Pkgs   []*packages.Package
	ByPath map[string]*packages.Package
	Prog   *ssa.Program
	SSA    map[string]*ssa.Package
	// all functions of module packages, by qualified name ("socket.(*message).Reset")
	Funcs map[string]*ssa.Function
}

// patterns of module packages that are put under SSA (relative to RepoDir).
var loadPatterns = []string{
	".", "./socket", "./utils", "./xfer", "./xfer/md5", "./xfer/gzip", "./codec",
	"./plugin/auth", "./plugin/binder", "./plugin/heartbeat", "./plugin/ignorecase",
	"./plugin/overloader", "./plugin/proxy", "./plugin/secure",
	"./proto/httproto", "./proto/jsonproto", "./proto/pbproto", "./proto/rawproto", "./proto/thriftproto",
	"./mixer/websocket", "./mixer/websocket/jsonSubProto", "./mixer/websocket/pbSubProto",
}

func goEnv() []string {
	return append(os.Environ(), "GOFLAGS=-mod=mod", "GOPROXY=off", "GOSUMDB=off", "GOTOOLCHAIN=local")
}

// Load type-checks and builds SSA for the module packages from the current
// working tree (plus an optional in-memory overlay used by the canary corpus).
func Load(overlay map[string][]byte) (*Program, error) {
	cfg := &packages.Config{
		Mode: packages.NeedName | packages.NeedFiles | packages.NeedCompiledGoFiles | packages.NeedImports |
			packages.NeedTypes | packages.NeedTypesSizes | packages.NeedSyntax | packages.NeedTypesInfo,
		Dir:        RepoDir,
		BuildFlags: []string{"-tags=verif"},
		Env:        goEnv(),
		Overlay:    overlay,
	}
	pkgs, err := packages.Load(cfg, loadPatterns...)
	if err != nil {
		return nil, err
	}
	var errs []string
	for _, p := range pkgs {
		for _, e := range p.Errors {
			errs = append(errs, e.Error())
		}
	}
	if len(errs) > 0 {
		return nil, fmt.Errorf("package errors:\n%s", strings.Join(errs, "\n"))
	}
	prog, spkgs := ssautil.Packages(pkgs, ssa.InstantiateGenerics|ssa.GlobalDebug)
	P := &Program{Pkgs: pkgs, ByPath: map[string]*packages.Package{}, Prog: prog, SSA: map[string]*ssa.Package{}, Funcs: map[string]*ssa.Function{}}
	for i, p := range pkgs {
		P.ByPath[p.PkgPath] = p
		if spkgs[i] != nil {
			spkgs[i].Build()
			P.SSA[p.PkgPath] = spkgs[i]
		}
	}
	// stable names for closures in package initialisers: init$<Var>[.<Key>]
	for i, p := range pkgs {
		if spkgs[i] == nil {
			continue
		}
		initFn := spkgs[i].Func("init")
		if initFn == nil {
			continue
		}
		for _, an := range initFn.AnonFuncs {
			if name := initClosureName(p, an); name != "" {
				closureAlias[an] = name
			}
		}
	}
	for _, sp := range P.SSA {
		for _, mem := range sp.Members {
			switch m := mem.(type) {
			case *ssa.Function:
				P.addFunc(m)
			case *ssa.Type:
				for _, T := range []types.Type{m.Type(), types.NewPointer(m.Type())} {
					ms := prog.MethodSets.MethodSet(T)
					for i := 0; i < ms.Len(); i++ {
						fn := prog.MethodValue(ms.At(i))
						if fn != nil && fn.Pkg == sp && fn.Synthetic == "" {
							P.addFunc(fn)
						}
					}
				}
			}
		}
	}
	return P, nil
}

func (P *Program) addFunc(fn *ssa.Function) {
	name := QualName(fn)
	if _, ok := P.Funcs[name]; ok {
		return
	}
	P.Funcs[name] = fn
	for _, an := range fn.AnonFuncs {
		P.addAnon(an)
	}
}

func (P *Program) addAnon(fn *ssa.Function) {
	P.Funcs[QualName(fn)] = fn
	for _, an := range fn.AnonFuncs {
		P.addAnon(an)
	}
}

// shortPkg maps an import path to the short qualifier used in obligation names.
func shortPkg(path string) string {
	if path == ModPath {
		return "erpc"
	}
	if strings.HasPrefix(path, ModPath+"/") {
		return strings.TrimPrefix(path, ModPath+"/")
	}
	return path
}

// QualName gives the stable, line-independent name of a function:
// "socket.(*message).Reset", "erpc.(*session).write", "socket.minus",
// closures: "erpc.(*peer).Dial$1".
var closureAlias = map[*ssa.Function]string{}

// initClosureName names a function literal of a package-level variable
// initialiser after the variable (and composite-literal key) it initialises.
func initClosureName(p *packages.Package, fn *ssa.Function) string {
	lit, ok := fn.Syntax().(*ast.FuncLit)
	if !ok {
		return ""
	}
	for _, f := range p.Syntax {
		if f.Pos() > lit.Pos() || lit.End() > f.End() {
			continue
		}
		path, _ := astutil.PathEnclosingInterval(f, lit.Pos(), lit.End())
		name := ""
		for _, n := range path {
			switch x := n.(type) {
			case *ast.KeyValueExpr:
				if id, ok := x.Key.(*ast.Ident); ok && name == "" {
					name = "." + id.Name
				}
			case *ast.ValueSpec:
				if len(x.Names) > 0 {
					return "init$" + x.Names[0].Name + name
				}
			}
		}
	}
	return ""
}

func QualName(fn *ssa.Function) string {
	if fn == nil {
		return "<nil>"
	}
	if a, ok := closureAlias[fn]; ok {
		return shortPkg(fn.Pkg.Pkg.Path()) + "." + a
	}
	if fn.Parent() != nil {
		return QualName(fn.Parent()) + "$" + strings.TrimPrefix(fn.Name(), fn.Parent().Name()+"$")
	}
	pkg := ""
	if fn.Pkg != nil {
		pkg = shortPkg(fn.Pkg.Pkg.Path())
	} else if fn.Object() != nil && fn.Object().Pkg() != nil {
		pkg = shortPkg(fn.Object().Pkg().Path())
	}
	if recv := fn.Signature.Recv(); recv != nil {
		return pkg + "." + recvString(recv.Type()) + "." + fn.Name()
	}
	return pkg + "." + fn.Name()
}

func recvString(t types.Type) string {
	if p, ok := t.(*types.Pointer); ok {
		return "(*" + typeBase(p.Elem()) + ")"
	}
	return "(" + typeBase(t) + ")"
}

func typeBase(t types.Type) string {
	if n, ok := t.(*types.Named); ok {
		return n.Obj().Name()
	}
	if a, ok := t.(*types.Alias); ok {
		return a.Obj().Name()
	}
	return t.String()
}

// typeKey is the stable name of a named type used in heap-array names: "socket.message".
func typeKey(t types.Type) string {
	switch t := t.(type) {
	case *types.Named:
		if t.Obj().Pkg() == nil {
			return t.Obj().Name()
		}
		return shortPkg(t.Obj().Pkg().Path()) + "." + t.Obj().Name()
	case *types.Alias:
		return typeKey(types.Unalias(t))
	case *types.Pointer:
		return "*" + typeKey(t.Elem())
	}
	s := types.TypeString(t, func(p *types.Package) string { return shortPkg(p.Path()) })
	return s
}

func inModule(pkg *types.Package) bool {
	return pkg != nil && (pkg.Path() == ModPath || strings.HasPrefix(pkg.Path(), ModPath+"/"))
}

func sortedKeys[V any](m map[string]V) []string {
	ks := make([]string, 0, len(m))
	for k := range m {
		ks = append(ks, k)
	}
	sort.Strings(ks)
	return ks
}

func relRepo(path string) string {
	if r, err := filepath.Rel(RepoDir, path); err == nil && !strings.HasPrefix(r, "..") {
		return r
	}
	return path
}

// lookupFull finds a package-level function by its full name "import/path.Func".
func (P *Program) lookupFull(full string) *ssa.Function {
	i := strings.LastIndex(full, ".")
	if i < 0 {
		return nil
	}
	path, name := full[:i], full[i+1:]
	for _, sp := range P.Prog.AllPackages() {
		if sp.Pkg.Path() == path {
			return sp.Func(name)
		}
	}
	return nil
}

// lookupNamedType: the text "import/path.Name" names a type of a loaded package.
func (P *Program) lookupNamedType(full string) bool {
	i := strings.LastIndex(full, ".")
	if i < 0 {
		return false
	}
	path, name := full[:i], full[i+1:]
	for _, sp := range P.Prog.AllPackages() {
		if sp.Pkg.Path() == path || shortPkg(sp.Pkg.Path()) == path {
			if _, ok := sp.Pkg.Scope().Lookup(name).(*types.TypeName); ok {
				return true
			}
		}
	}
	return false
}
