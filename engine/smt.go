package main

import (
	"bytes"
	"context"
	"fmt"
	"os"
	"os/exec"
	"path/filepath"
	"strings"
	"sync"
	"time"
)

// SolverResult is the verdict of the portfolio on one obligation.
type SolverResult struct {
	Verdict string // unsat sat unknown timeout error
	Solver  string
	TimeS   float64
	Model   string
	Raw     map[string]string // per-solver first lines / output
	Confirm string            // second solver that confirmed unsat (thorough)
}

type solverSpec struct {
	name string
	args func(file string, timeoutS int) []string
	bin  string
}

var solvers = []solverSpec{
	{"z3-new", func(f string, t int) []string {
		return []string{fmt.Sprintf("-T:%d", t), "smt.mbqi=false", "smt.auto_config=false", f}
	}, "z3-new"},
	{"z3", func(f string, t int) []string {
		return []string{fmt.Sprintf("-T:%d", t), "smt.mbqi=false", "smt.auto_config=false", f}
	}, "z3"},
	{"cvc5", func(f string, t int) []string {
		// without model production: cvc5 is an order of magnitude slower on quantified
		// goals when it has to be able to build a model (counter-models come from z3)
		return []string{fmt.Sprintf("--tlimit=%d", t*1000), strings.TrimSuffix(f, ".smt2") + ".nm.smt2"}
	}, "cvc5"},
}

var solverSem = make(chan struct{}, 16)

func runOne(ctx context.Context, sp solverSpec, file string, timeoutS int) (verdict, out string, dt float64) {
	solverSem <- struct{}{}
	defer func() { <-solverSem }()
	t0 := time.Now()
	cctx, cancel := context.WithTimeout(ctx, time.Duration(timeoutS+2)*time.Second)
	defer cancel()
	cmd := exec.CommandContext(cctx, sp.bin, sp.args(file, timeoutS)...)
	var buf bytes.Buffer
	cmd.Stdout = &buf
	cmd.Stderr = &buf
	_ = cmd.Run()
	dt = time.Since(t0).Seconds()
	out = buf.String()
	first := strings.TrimSpace(strings.SplitN(out, "\n", 2)[0])
	switch first {
	case "unsat", "sat", "unknown":
		verdict = first
	case "timeout":
		verdict = "timeout"
	default:
		if ctx.Err() != nil || cctx.Err() != nil {
			verdict = "timeout"
		} else if strings.Contains(out, "timeout") || strings.Contains(out, "interrupted") {
			verdict = "timeout"
		} else {
			verdict = "error"
		}
	}
	return
}

// SolveProbe decides a vacuity probe (expected NOT to be refutable): the solvers
// run one after the other with a short budget, so that the many probes do not
// compete with the real obligations for the cores.
func SolveProbe(script string, dir, name string, timeoutS int) SolverResult {
	os.MkdirAll(dir, 0o755)
	file := filepath.Join(dir, name+".smt2")
	full := "(set-logic ALL)\n" + script + "\n(check-sat)\n"
	if err := os.WriteFile(file, []byte(full), 0o644); err != nil {
		return SolverResult{Verdict: "error", Raw: map[string]string{"io": err.Error()}}
	}
	os.WriteFile(strings.TrimSuffix(file, ".smt2")+".nm.smt2", []byte(full), 0o644)
	res := SolverResult{Raw: map[string]string{}, Verdict: "unknown"}
	t0 := time.Now()
	for _, sp := range []solverSpec{solvers[0], solvers[2]} {
		v, _, dt := runOne(context.Background(), sp, file, timeoutS)
		res.Raw[sp.name] = fmt.Sprintf("%s (%.2fs)", v, dt)
		if v == "unsat" || v == "sat" {
			res.Verdict, res.Solver = v, sp.name
			break
		}
	}
	res.TimeS = time.Since(t0).Seconds()
	return res
}

// Solve races the portfolio on an SMT-LIB script (without check-sat/get-model,
// which are appended here). z3-new gets a head start; the others join if it has
// not answered definitively within headStart.
func Solve(script string, dir, name string, timeoutS int, confirm bool) SolverResult {
	return SolveOpt(script, dir, name, timeoutS, confirm, true)
}

// SolveOpt: deep=false skips the default-configuration fallback.
func SolveOpt(script string, dir, name string, timeoutS int, confirm, deep bool) SolverResult {
	os.MkdirAll(dir, 0o755)
	file := filepath.Join(dir, name+".smt2")
	full := "(set-option :produce-models true)\n(set-logic ALL)\n" + script + "\n(check-sat)\n(get-model)\n"
	if err := os.WriteFile(file, []byte(full), 0o644); err != nil {
		return SolverResult{Verdict: "error", Raw: map[string]string{"io": err.Error()}}
	}
	os.WriteFile(strings.TrimSuffix(file, ".smt2")+".nm.smt2", []byte("(set-logic ALL)\n"+script+"\n(check-sat)\n"), 0o644)
	res := SolverResult{Raw: map[string]string{}, Verdict: "unknown"}
	ctx, cancel := context.WithCancel(context.Background())
	defer cancel()
	type ans struct {
		sp     solverSpec
		v, out string
		dt     float64
	}
	ch := make(chan ans, len(solvers))
	var wg sync.WaitGroup
	launch := func(sp solverSpec) {
		wg.Add(1)
		go func() {
			defer wg.Done()
			v, out, dt := runOne(ctx, sp, file, timeoutS)
			ch <- ans{sp, v, out, dt}
		}()
	}
	t0 := time.Now()
	launch(solvers[0])
	pending := 1
	launchedAll := false
	head := time.NewTimer(1500 * time.Millisecond)
	defer head.Stop()
	var mu sync.Mutex
	record := func(a ans) {
		mu.Lock()
		defer mu.Unlock()
		o := a.out
		if len(o) > 4000 {
			o = o[:4000] + "…"
		}
		res.Raw[a.sp.name] = fmt.Sprintf("%s (%.2fs)", a.v, a.dt)
		if a.v == "sat" {
			res.Model = o
		}
		if a.v == "error" {
			res.Raw[a.sp.name] += ": " + firstLines(o, 3)
		}
	}
	definitive := false
	for pending > 0 && !definitive {
		select {
		case a := <-ch:
			pending--
			record(a)
			if a.v == "unsat" || a.v == "sat" {
				res.Verdict, res.Solver, res.TimeS = a.v, a.sp.name, time.Since(t0).Seconds()
				definitive = true
			} else if !launchedAll {
				launchedAll = true
				for _, sp := range solvers[1:] {
					launch(sp)
					pending++
				}
			}
		case <-head.C:
			if !launchedAll {
				launchedAll = true
				for _, sp := range solvers[1:] {
					launch(sp)
					pending++
				}
			}
		}
	}
	cancel()
	if !definitive {
		res.TimeS = time.Since(t0).Seconds()
		// distinguish unknown / timeout
		allTO := true
		for _, v := range res.Raw {
			if !strings.HasPrefix(v, "timeout") {
				allTO = false
			}
		}
		if allTO {
			res.Verdict = "timeout"
		}
	}
	if !definitive && res.Verdict == "unknown" {
		// E-matching gave up: try model-based instantiation briefly, only to obtain a
		// counter-model for the report/replay (an unsat here also counts: same formula)
		sp := solverSpec{"z3-new(mbqi)", func(f string, t int) []string {
			return []string{fmt.Sprintf("-T:%d", t), "smt.mbqi=true", f}
		}, "z3-new"}
		v, out, dt := runOne(context.Background(), sp, file, 6)
		res.Raw[sp.name] = fmt.Sprintf("%s (%.2fs)", v, dt)
		if v == "sat" {
			res.Verdict, res.Solver = "sat", sp.name
			if len(out) > 6000 {
				out = out[:6000] + "…"
			}
			res.Model = out
		} else if v == "unsat" {
			res.Verdict, res.Solver = "unsat", sp.name
			definitive = true
		}
	}
	if !definitive && res.Verdict == "unknown" && deep {
		// the old z3 with its default configuration (auto-config, mbqi) decides some
		// goals over arrays of records on which the tuned E-matching setups give up
		sp := solverSpec{"z3(default)", func(f string, t int) []string {
			return []string{fmt.Sprintf("-T:%d", t), f}
		}, "z3"}
		to := timeoutS
		if to > 10 {
			to = 10
		}
		v, _, dt := runOne(context.Background(), sp, file, to)
		res.Raw[sp.name] = fmt.Sprintf("%s (%.2fs)", v, dt)
		if v == "unsat" {
			res.Verdict, res.Solver = "unsat", sp.name
			res.TimeS = time.Since(t0).Seconds()
			definitive = true
		}
	}
	if !definitive && deep {
		// a solver ran out of time (for instance on a loaded machine): one more attempt
		// with the usual winner and three times the budget, so that a slow machine does
		// not turn a provable obligation into an alarm
		anyTO := false
		for _, v := range res.Raw {
			if strings.HasPrefix(v, "timeout") {
				anyTO = true
			}
		}
		if anyTO {
			sp := solvers[0]
			v, _, dt := runOne(context.Background(), sp, file, 3*timeoutS)
			res.Raw[sp.name+"(retry x3)"] = fmt.Sprintf("%s (%.2fs)", v, dt)
			if v == "unsat" {
				res.Verdict, res.Solver = "unsat", sp.name
				res.TimeS = time.Since(t0).Seconds()
				definitive = true
			}
		}
	}
	if definitive && res.Verdict == "unsat" && confirm {
		for _, sp := range solvers {
			if sp.name == res.Solver {
				continue
			}
			v, _, dt := runOne(context.Background(), sp, file, timeoutS)
			res.Raw[sp.name+"(confirm)"] = fmt.Sprintf("%s (%.2fs)", v, dt)
			if v == "unsat" {
				res.Confirm = sp.name
				break
			}
			if v == "sat" {
				res.Verdict = "error"
				res.Raw["disagreement"] = sp.name + " says sat, " + res.Solver + " says unsat"
				break
			}
		}
	}
	go func() { wg.Wait() }()
	return res
}

func firstLines(s string, n int) string {
	ls := strings.Split(s, "\n")
	if len(ls) > n {
		ls = ls[:n]
	}
	return strings.Join(ls, " | ")
}

// ---- small helpers for building SMT terms -------------------------------

func sAnd(xs ...string) string {
	var ys []string
	for _, x := range xs {
		if x == "true" || x == "" {
			continue
		}
		if x == "false" {
			return "false"
		}
		ys = append(ys, x)
	}
	switch len(ys) {
	case 0:
		return "true"
	case 1:
		return ys[0]
	}
	return "(and " + strings.Join(ys, " ") + ")"
}

func sOr(xs ...string) string {
	var ys []string
	for _, x := range xs {
		if x == "false" || x == "" {
			continue
		}
		if x == "true" {
			return "true"
		}
		ys = append(ys, x)
	}
	switch len(ys) {
	case 0:
		return "false"
	case 1:
		return ys[0]
	}
	return "(or " + strings.Join(ys, " ") + ")"
}

func sNot(x string) string {
	switch x {
	case "true":
		return "false"
	case "false":
		return "true"
	}
	if strings.HasPrefix(x, "(not ") && strings.HasSuffix(x, ")") && balanced(x[5:len(x)-1]) {
		return x[5 : len(x)-1]
	}
	return "(not " + x + ")"
}

func balanced(s string) bool {
	d := 0
	for _, c := range s {
		if c == '(' {
			d++
		} else if c == ')' {
			d--
			if d < 0 {
				return false
			}
		}
	}
	return d == 0
}

func sImp(a, b string) string {
	if a == "true" {
		return b
	}
	if a == "false" || b == "true" {
		return "true"
	}
	return "(=> " + a + " " + b + ")"
}

func sEq(a, b string) string {
	if a == b {
		return "true"
	}
	return "(= " + a + " " + b + ")"
}

func sIte(c, a, b string) string {
	if c == "true" {
		return a
	}
	if c == "false" {
		return b
	}
	return "(ite " + c + " " + a + " " + b + ")"
}

func sInt(n int64) string {
	if n < 0 {
		return fmt.Sprintf("(- %d)", -n)
	}
	return fmt.Sprintf("%d", n)
}

func sApp(f string, args ...string) string {
	if len(args) == 0 {
		return f
	}
	return "(" + f + " " + strings.Join(args, " ") + ")"
}

var symRepl = strings.NewReplacer("*", "^", "(", "<", ")", ">", "[", "<", "]", ">", " ", "_", ",", "_", "{", "<", "}", ">", "/", "/", ";", "_", "\"", "_", "|", "_", "#", "$", ":", "_", "'", "_", "\\", "_")

func sym(s string) string { return symRepl.Replace(s) }
