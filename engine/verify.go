package main

import (
	"go/token"
	"fmt"
	"go/types"
	"sort"
	"strings"

	"golang.org/x/tools/go/ssa"
)

// FuncReport is what one function under contract contributed.
type FuncReport struct {
	Func        string
	Obligations []*Obligation
	Warnings    []string
	Unmodelled  map[string]int
	Assumptions []string
	Callees     map[string]string
	Errors      []string
	SMTBytes    int
	hsort       map[string]string
	modElem     map[string]bool
}

func contractParamList(k *FuncContract, fn *ssa.Function, sigs ...*types.Signature) (names []string, typs []types.Type) {
	if fn == nil {
		if len(sigs) == 0 || sigs[0] == nil {
			return
		}
		sig := sigs[0]
		for i := 0; i < sig.Params().Len(); i++ {
			p := sig.Params().At(i)
			n := p.Name()
			if n == "" || n == "_" {
				n = fmt.Sprintf("p%d", i)
			}
			names = append(names, n)
			typs = append(typs, p.Type())
		}
		if k != nil {
			for i := range names {
				if i < len(k.Params) {
					names[i] = k.Params[i]
				}
			}
		}
		return
	}
	if len(fn.Params) > 0 {
		for _, p := range fn.Params {
			names = append(names, p.Name())
			typs = append(typs, p.Type())
		}
	} else {
		sig := fn.Signature
		if sig.Recv() != nil {
			n := sig.Recv().Name()
			if n == "" || n == "_" {
				n = "self"
			}
			names = append(names, n)
			typs = append(typs, sig.Recv().Type())
		}
		for i := 0; i < sig.Params().Len(); i++ {
			p := sig.Params().At(i)
			n := p.Name()
			if n == "" || n == "_" {
				n = fmt.Sprintf("p%d", i)
			}
			names = append(names, n)
			typs = append(typs, p.Type())
		}
	}
	if k != nil {
		for i := range names {
			if i < len(k.Params) {
				names[i] = k.Params[i]
			}
		}
	}
	return
}

// VerifyFunc generates every obligation of one function under contract.
func VerifyFunc(P *Program, DB *ContractDB, fn *ssa.Function, k *FuncContract, prop string) *FuncReport {
	// pass 1 only collects the heap variables the function and its contracts
	// mention, so that unchanged() and state merges range over all of them.
	first := verifyFuncPass(P, DB, fn, k, prop, nil, nil)
	return verifyFuncPass(P, DB, fn, k, prop, first.hsort, first.modElem)
}

func verifyFuncPass(P *Program, DB *ContractDB, fn *ssa.Function, k *FuncContract, prop string, seed map[string]string, seedMod map[string]bool) *FuncReport {
	vc := NewVC(P, DB, fn, k, prop)
	for n, s := range seed {
		vc.hsort[n] = s
	}
	if vc.modElem == nil {
		vc.modElem = map[string]bool{}
	}
	for n := range seedMod {
		// classification of element arrays / cells learnt in pass 1 (module-private or not)
		vc.modElem[n] = true
	}
	vc.safety = k.Flags["safety"]
	vc.useSeq = k.Flags["seq"]
	rep := &FuncReport{Func: vc.qname, hsort: vc.hsort, modElem: vc.modElem}
	defer func() {
		if r := recover(); r != nil {
			rep.Errors = append(rep.Errors, fmt.Sprintf("engine panic in %s: %v", vc.qname, r))
			rep.Obligations = nil
			panic(r)
		}
	}()
	vc.emit("(assert (>= " + vc.look(vc.entry, "$alloc") + " 0))")
	vc.emitAxioms()
	st := vc.entry.clone()
	fr := vc.newFrame(fn, nil)
	fr.spec = k
	env := vc.newEnv(k, st, vc.entry)
	// parameters
	for i, p := range fn.Params {
		t := vc.declare(sym("p."+p.Name()), vc.sortOf(p.Type()))
		fr.vals[p] = t
		vc.assume("true", vc.rangeFact(t, p.Type()))
		vc.assume("true", fr.allocFact(st, t, p.Type()))
		cv := cval{t: t, typ: p.Type(), sort: vc.sortOf(p.Type())}
		env.vars[p.Name()] = cv
		if i < len(k.Params) && k.Params[i] != p.Name() {
			// renamed by the contract ("params ..."), e.g. to free the word "result"
			delete(env.vars, p.Name())
			env.vars[k.Params[i]] = cv
		}
		env.vars[fmt.Sprintf("p%d", i)] = cv
		if i == 0 && fn.Signature.Recv() != nil {
			env.vars["self"] = cv
			if _, isPtr := p.Type().Underlying().(*types.Pointer); isPtr && !k.Flags["nil-receiver"] {
				vc.assume("true", fmt.Sprintf("(> %s 0)", t))
				vc.Assumptions["receiver-non-nil: methods are verified for non-nil receivers"] = true
			}
		}
	}
	for _, fv := range fn.FreeVars {
		t := vc.declare(sym("fv."+fv.Name()), vc.sortOf(fv.Type()))
		fr.vals[fv] = t
		vc.assume("true", vc.rangeFact(t, fv.Type()))
		// captured variables are cells
		if pt, ok := fv.Type().Underlying().(*types.Pointer); ok && !isAggregate(pt.Elem()) {
			fr.addrs[fv] = vc.cellAddr(pt.Elem(), t)
			env.vars[fv.Name()] = cval{t: vc.read(st, fr.addrs[fv]), typ: pt.Elem(), sort: vc.sortOf(pt.Elem()), addr: fr.addrs[fv], cell: true}
		} else {
			env.vars[fv.Name()] = cval{t: t, typ: fv.Type(), sort: vc.sortOf(fv.Type())}
		}
	}
	env.evalLets(k)
	fr.env = env
	// preconditions
	var pres []string
	for _, rq := range k.Requires {
		g := env.evalBool(rq.E)
		pres = append(pres, g)
		vc.assume("true", g)
	}
	// vacuity guard: the precondition (with the axioms) must be satisfiable
	vq := vc.oblige("vacuity", fmt.Sprintf("%s/%s/vacuity[requires-satisfiable]", prop, vc.qname), "requires && axioms are satisfiable (must NOT be refutable)", "true", "false", fn.Pos(), true)
	vq.MustFail = true
	vc.lines = vc.lines[:len(vc.lines)-1] // drop the "assume false" that oblige appended
	vq.NLines = len(vc.lines)

	if k.HasMod && !k.ModAll && !k.Flags["frame-unchecked"] {
		vc.computeFrame(env, k)
	}
	if k.Flags["frame-unchecked"] {
		vc.Assumptions["modifies clause of "+vc.qname+" is assumed, not checked against its body (flag frame-unchecked)"] = true
	}
	ex := fr.run("true", st)

	// exceptional exits (panics): deferred functions run, then either recovered or propagated
	var exits []mergeIn
	var exitVals [][]string
	if ex != nil {
		exits = append(exits, mergeIn{ex.reach, ex.st})
		exitVals = append(exitVals, ex.vals)
	}
	panicExit := fr.handlePanics()
	_ = panicExit

	if ex != nil {
		ev := vc.oblige("vacuity", fmt.Sprintf("%s/%s/vacuity[exit-reachable]", prop, vc.qname), "the normal exit is reachable under the assumed contracts (must NOT be refutable)", ex.reach, "false", fn.Pos(), true)
		ev.MustFail = true
		vc.lines = vc.lines[:len(vc.lines)-1]
		ev.NLines = len(vc.lines)
		// every return statement should be reachable under the assumed contracts: an
		// unreachable one usually means an over-strong (contradictory) assumption made
		// part of the body dead, so that its obligations hold vacuously (reported as a
		// warning: dead code and precondition-excluded paths are legitimate)
		if len(fr.rets) > 1 && len(fr.rets) <= 24 {
			for i, r := range fr.rets {
				line := vc.P.Prog.Fset.Position(r.pos).Line
				rv := vc.oblige("vacuity", fmt.Sprintf("%s/%s/vacuity[return#%d-reachable L%d]", prop, vc.qname, i+1, line), "this return statement is reachable under the assumed contracts", r.cond, "false", r.pos, true)
				rv.MustFail = true
				rv.Soft = true
				vc.lines = vc.lines[:len(vc.lines)-1]
				rv.NLines = len(vc.lines)
			}
		}
		post := env.at(ex.st, nil)
		post.old = vc.entry
		post.results = nil
		res := fn.Signature.Results()
		for i := 0; i < res.Len(); i++ {
			cv := cval{t: ex.vals[i], typ: res.At(i).Type(), sort: vc.sortOf(res.At(i).Type())}
			post.results = append(post.results, cv)
			if n := res.At(i).Name(); n != "" && n != "_" {
				if _, clash := post.vars[n]; !clash {
					post.vars[n] = cv
				}
			}
		}
		post.lets = map[string]Expr{}
		post.evalLets(k)
		// ghost code of the contract: assignments to ghost locations at the exit
		for _, gs := range k.GhostSets {
			post.applyGhostSet(gs, ex.st)
		}
		for _, en := range k.Ensures {
			if !en.appliesTo(prop) || en.OnlyPanic {
				continue
			}
			g := post.evalBool(en.E)
			vc.oblige("ensures", fmt.Sprintf("%s/%s/ensures[%s]", prop, vc.qname, en.Name), en.Src, ex.reach, g, fn.Pos(), en.Claimed)
		}
		if k.HasMod && !k.ModAll && !k.Flags["frame-unchecked"] {
			vc.frameObligations(env, ex, k, prop)
		}
		if k.Flags["locks"] {
			vc.lockBalance(env, ex, k, prop)
		}
	} else if len(k.Ensures) > 0 && !k.Flags["noreturn"] {
		vc.warn("%s: no normal exit found", vc.qname)
	}
	if panicExit != nil {
		post := env.at(panicExit.st, nil)
		post.old = vc.entry
		post.results = nil
		if len(panicExit.vals) == fn.Signature.Results().Len() {
			res := fn.Signature.Results()
			for i := 0; i < res.Len(); i++ {
				post.results = append(post.results, cval{t: panicExit.vals[i], typ: res.At(i).Type(), sort: vc.sortOf(res.At(i).Type())})
			}
		}
		post.lets = map[string]Expr{}
		post.evalLets(k)
		for _, en := range k.Ensures {
			if !en.OnPanic || !en.appliesTo(prop) {
				continue
			}
			g := post.evalBool(en.E)
			vc.oblige("ensures", fmt.Sprintf("%s/%s/ensures[%s]/on-panic", prop, vc.qname, en.Name), en.Src, panicExit.reach, g, fn.Pos(), en.Claimed)
		}
	}
	rep.Obligations = vc.obls
	rep.Warnings = vc.Warnings
	rep.Unmodelled = vc.Unmodelled
	rep.Callees = vc.CalleesUsed
	rep.Errors = append(rep.Errors, vc.ContractErrors...)
	for a := range vc.Assumptions {
		rep.Assumptions = append(rep.Assumptions, a)
	}
	sort.Strings(rep.Assumptions)
	for _, l := range vc.lines {
		rep.SMTBytes += len(l)
	}
	return rep
}

// handlePanics merges the exceptional exits, runs the deferred calls with
// recover() != nil and returns the state at the exceptional function exit.
func (fr *Frame) handlePanics() *exitInfo {
	vc := fr.vc
	if len(fr.panics) == 0 && len(fr.deferPanics) == 0 {
		return nil
	}
	var exits []mergeIn
	if len(fr.panics) > 0 {
		var conds []string
		for _, p := range fr.panics {
			conds = append(conds, p.cond)
		}
		reach := vc.def("panic.reach", "Bool", sOr(conds...))
		st := vc.merge(fr.panics)
		fr.panics = nil
		reach = fr.runDefers(st, reach, true)
		exits = append(exits, mergeIn{reach, st})
	}
	// panics raised by deferred calls (on the normal or on the panicking path)
	// reach the exceptional exit directly (simplification: defers registered
	// before the one that panicked are not run for them)
	exits = append(exits, fr.deferPanics...)
	fr.deferPanics = nil
	fr.panics = nil
	var ex *exitInfo
	if len(exits) == 1 {
		ex = &exitInfo{reach: exits[0].cond, st: exits[0].st}
	} else {
		var conds []string
		for _, e := range exits {
			conds = append(conds, e.cond)
		}
		ex = &exitInfo{reach: vc.def("panic.exit", "Bool", sOr(conds...)), st: vc.merge(exits)}
	}
	// a recovered panic returns through the function's recover block: the values of
	// the named results as the deferred functions left them
	if rb := fr.fn.Recover; rb != nil && fr.fn.Signature.Results().Len() > 0 {
		saved := fr.rets
		fr.rets = nil
		cur := ex.reach
		for _, in := range rb.Instrs {
			if _, isPhi := in.(*ssa.Phi); isPhi {
				continue
			}
			cur = fr.step(in, ex.st, cur, map[[2]int]bool{})
		}
		if len(fr.rets) == 1 {
			ex.vals = fr.rets[0].vals
		}
		fr.rets = saved
	}
	return ex
}

// emitAxioms: user axioms (closed formulas over spec functions).
func (vc *VC) emitAxioms() {
	env := vc.newEnv(nil, vc.entry, vc.entry)
	for _, ax := range vc.DB.Axioms {
		e := *env
		if pk := vc.pkgOf(ax.Pkg); pk != nil {
			e.pkg = pk
		}
		e.k = &FuncContract{Name: "axiom " + ax.Name, Pkg: ax.Pkg}
		t := e.evalBool(ax.E)
		vc.emit("(assert " + t + ")")
		vc.Assumptions["axiom["+ax.Name+"] "+ax.Src] = true
	}
}

// frameObligations: every heap variable changed by the body is either listed in
// modifies (at the listed keys) or unchanged at every pre-allocated key.
// computeFrame evaluates the modifies clause in the entry state.
func (vc *VC) computeFrame(env *cenv, k *FuncContract) {
	pre := env.at(vc.entry, nil)
	pre.old = vc.entry
	vc.frameAllowed = map[string][]string{}
	for _, m := range k.Modifies {
		for _, l := range pre.locsOf(m) {
			vc.frameAllowed[l.Var] = append(vc.frameAllowed[l.Var], l.Ref)
		}
	}
	for _, gs := range k.GhostSets {
		for _, l := range pre.locsOf(gs.Loc) {
			vc.frameAllowed[l.Var] = append(vc.frameAllowed[l.Var], l.Ref)
		}
	}
}

// frameGoal: variable v in state st agrees with the entry state outside the
// modifies clause (at every pre-allocated key). "" = nothing to show.
func (vc *VC) frameGoal(v string, st *State) string {
	if strings.HasPrefix(v, "$") || strings.HasPrefix(v, "W!") || v == "Gh!maxAlloc" || v == "Gh!poolGets" || v == "Gh!poolPuts" || v == "Gh!bufferReleases" || v == "Gh!releasedBufs" || v == "Gh!argAllocs" || v == "Gh!msgPuts" {
		// Gh!maxAlloc is a monitor: it records the allocations of the function under
		// verification (and inlined helpers); callees report theirs only if their
		// contract lists ghost.maxAlloc
		return ""
	}
	if vc.contract != nil && vc.contract.Flags["libframe"] {
		// the contract already concedes what a library call may touch
		if ((strings.HasPrefix(v, "E!") || strings.HasPrefix(v, "C!")) && !vc.modElem[v]) || vc.libVars[v] {
			return ""
		}
	}
	cur := vc.look(st, v)
	old := vc.look(vc.entry, v)
	if cur == old {
		return ""
	}
	refs, listed := vc.frameAllowed[v]
	for _, r := range refs {
		if r == "" {
			return ""
		}
	}
	sort_ := vc.hsort[v]
	if !strings.HasPrefix(sort_, "(Array ") {
		if listed {
			return ""
		}
		return sEq(cur, old)
	}
	var excl []string
	for _, r := range refs {
		excl = append(excl, fmt.Sprintf("(not (= r %s))", r))
	}
	kin, _ := arraySorts(sort_)
	cond := sAnd(excl...)
	if kin == "Int" {
		cond = sAnd(append([]string{fmt.Sprintf("(<= r %s)", vc.look(vc.entry, "$alloc"))}, excl...)...)
	}
	return fmt.Sprintf("(forall ((r %s)) (! (=> %s (= (select %s r) (select %s r))) :pattern ((select %s r))))", kin, cond, cur, old, cur)
}

func (vc *VC) frameObligations(env *cenv, ex *exitInfo, k *FuncContract, prop string) {
	var names []string
	for v := range vc.hsort {
		names = append(names, v)
	}
	sort.Strings(names)
	for _, v := range names {
		goal := vc.frameGoal(v, ex.st)
		if goal == "" {
			continue
		}
		vc.oblige("frame", fmt.Sprintf("%s/%s/frame[%s]", prop, vc.qname, strings.TrimPrefix(v, "F!")), "modifies "+modSrc(k), ex.reach, goal, vc.fn.Pos(), true)
	}
}

func modSrc(k *FuncContract) string {
	var s []string
	for _, m := range k.Modifies {
		s = append(s, m.String())
	}
	return strings.Join(s, ", ")
}

// lockBalance: no lock is held at exit that was not held at entry (and vice
// versa) unless an ensures clause talks about held(...) explicitly.
func (vc *VC) lockBalance(env *cenv, ex *exitInfo, k *FuncContract, prop string) {
	if _, ok := vc.hsort["$held"]; !ok {
		return
	}
	for _, en := range k.Ensures {
		if strings.Contains(en.Src, "held(") {
			return
		}
	}
	cur, old := vc.look(ex.st, "$held"), vc.look(vc.entry, "$held")
	if cur == old {
		return
	}
	vc.oblige("lock", fmt.Sprintf("%s/%s/lock[balanced]", prop, vc.qname), "lockset at exit == lockset at entry", ex.reach,
		fmt.Sprintf("(forall ((m Int)) (= (select %s m) (select %s m)))", cur, old), vc.fn.Pos(), true)
}

// VerifyLemma checks a closed formula over spec functions and axioms.
func VerifyLemma(P *Program, DB *ContractDB, lm *Lemma, prop string) *FuncReport {
	vc := NewVC(P, DB, nil, nil, prop)
	vc.qname = "lemma " + lm.Name
	vc.emitAxioms()
	env := vc.newEnv(&FuncContract{Name: "lemma " + lm.Name, Pkg: lm.Pkg}, vc.entry, vc.entry)
	g := env.evalBool(lm.E)
	o := vc.oblige("lemma", fmt.Sprintf("%s/lemma[%s]", prop, lm.Name), lm.Src, "true", g, 0, true)
	o.Pos = fmt.Sprintf("%s:%d", relRepo(lm.File), lm.Line)
	rep := &FuncReport{Func: vc.qname, Obligations: vc.obls, Errors: vc.ContractErrors}
	for a := range vc.Assumptions {
		rep.Assumptions = append(rep.Assumptions, a)
	}
	return rep
}

// VerifyCover: syntactic completeness of a "fresh" predicate over a struct type.
func VerifyCover(P *Program, DB *ContractDB, cd *CoverDecl, prop string) *FuncReport {
	vc := NewVC(P, DB, nil, nil, prop)
	vc.qname = "covers " + cd.Spec
	rep := &FuncReport{Func: vc.qname}
	sf := DB.Specs[cd.Spec]
	env := vc.newEnv(&FuncContract{Name: vc.qname, Pkg: cd.Pkg}, vc.entry, vc.entry)
	T := env.resolveType(cd.Type)
	if sf == nil || T == nil {
		rep.Errors = append(rep.Errors, fmt.Sprintf("covers %s %s: unknown spec function or type", cd.Spec, cd.Type))
		return rep
	}
	st, ok := structOf(T)
	if !ok || len(sf.Params) == 0 {
		rep.Errors = append(rep.Errors, fmt.Sprintf("covers %s %s: not a struct / no parameter", cd.Spec, cd.Type))
		return rep
	}
	mentioned := map[string]bool{}
	var walk func(e Expr)
	walk = func(e Expr) {
		switch x := e.(type) {
		case *ESel:
			if id, ok := x.X.(*EIdent); ok && id.Name == sf.Params[0].Name {
				mentioned[x.Name] = true
			}
			walk(x.X)
		case *EBin:
			walk(x.L)
			walk(x.R)
		case *EUn:
			walk(x.X)
		case *ECall:
			for _, a := range x.Args {
				walk(a)
			}
			// nested spec functions over the same object count too
			if id, ok := x.Fn.(*EIdent); ok {
				if inner := DB.Specs[id.Name]; inner != nil && inner.Body != nil && len(x.Args) > 0 {
					if a, ok := x.Args[0].(*EIdent); ok && a.Name == sf.Params[0].Name && len(inner.Params) > 0 {
						save := sf
						sf = inner
						walk(inner.Body)
						sf = save
					}
				}
			}
		case *EIndex:
			walk(x.X)
			walk(x.I)
		case *ECond:
			walk(x.C)
			walk(x.A)
			walk(x.B)
		case *EOld:
			walk(x.X)
		case *EQuant:
			walk(x.Body)
		}
	}
	if sf.Body != nil {
		walk(sf.Body)
	}
	for i := 0; i < st.NumFields(); i++ {
		f := st.Field(i).Name()
		goal := "true"
		if !mentioned[f] && !cd.Except[f] {
			goal = "false"
		}
		o := vc.oblige("cover", fmt.Sprintf("%s/covers[%s %s]/unreset-field[%s]", prop, cd.Spec, cd.Type, f), fmt.Sprintf("spec fn %s constrains field %s of %s (or it is exempted with a reason)", cd.Spec, f, cd.Type), "true", goal, 0, true)
		o.Pos = fmt.Sprintf("%s:%d", relRepo(cd.File), cd.Line)
	}
	rep.Obligations = vc.obls
	return rep
}

// VerifyWrites enumerates every store to a field in the module: each must sit in
// one of the listed functions, and the field's address must not escape.
// VerifyPerCapture: the closure is created inside a loop, and every captured
// variable the declaration names lives in a cell allocated inside the innermost
// loop around the creation (one cell per iteration), or is captured by value.
func VerifyPerCapture(P *Program, DB *ContractDB, pd *PerCaptureDecl, prop string) *FuncReport {
	vc := NewVC(P, DB, nil, nil, prop)
	vc.qname = "percapture " + pd.Closure
	rep := &FuncReport{Func: vc.qname}
	fn := P.Funcs[pd.Closure]
	found := map[string]bool{}
	sites := 0
	if fn != nil && fn.Parent() != nil {
		par := fn.Parent()
		for _, b := range par.Blocks {
			for _, in := range b.Instrs {
				mc, ok := in.(*ssa.MakeClosure)
				if !ok || mc.Fn != fn {
					continue
				}
				sites++
				loop := innermostLoop(par, b)
				goal := "false"
				if loop != nil {
					goal = "true"
				}
				vc.oblige("writes", fmt.Sprintf("%s/%s/created-in-loop#%d", prop, vc.qname, sites), "the closure is created inside a loop", "true", goal, mc.Pos(), true)
				for i, fv := range fn.FreeVars {
					if len(pd.Vars) > 0 && !pd.Vars[fv.Name()] {
						continue
					}
					found[fv.Name()] = true
					bind := mc.Bindings[i]
					goal := "true"
					if al, isCell := bind.(*ssa.Alloc); isCell {
						if loop == nil || !loop[al.Block()] {
							goal = "false"
						}
					} else if _, isPtr := fv.Type().Underlying().(*types.Pointer); isPtr {
						// a captured cell that is not a plain allocation of the parent (a φ-node,
						// a parameter, another closure's cell): not known to be per iteration
						if _, byValue := bind.(*ssa.Parameter); !byValue {
							goal = "false"
						}
					}
					vc.oblige("writes", fmt.Sprintf("%s/%s/own-copy[%s]#%d", prop, vc.qname, fv.Name(), sites), "captured variable "+fv.Name()+" is allocated in the loop iteration that creates the closure", "true", goal, mc.Pos(), true)
				}
			}
		}
	}
	goal := "true"
	if fn == nil || sites == 0 {
		goal = "false"
	}
	for v := range pd.Vars {
		if !found[v] {
			goal = "false"
		}
	}
	vc.oblige("writes", fmt.Sprintf("%s/%s/closure-and-variables-exist", prop, vc.qname), "the closure exists, is created somewhere, and captures the named variables", "true", goal, 0, true)
	rep.Obligations = vc.obls
	return rep
}

// innermostLoop: the blocks of the innermost natural loop of fn that contains b
// (nil if b is in no loop).
func innermostLoop(fn *ssa.Function, b *ssa.BasicBlock) map[*ssa.BasicBlock]bool {
	var best map[*ssa.BasicBlock]bool
	for _, h := range fn.Blocks {
		body := map[*ssa.BasicBlock]bool{}
		var stack []*ssa.BasicBlock
		for _, p := range h.Preds {
			if h.Dominates(p) { // back edge p -> h
				if !body[p] {
					body[p] = true
					stack = append(stack, p)
				}
			}
		}
		if len(stack) == 0 {
			continue
		}
		body[h] = true
		for len(stack) > 0 {
			x := stack[len(stack)-1]
			stack = stack[:len(stack)-1]
			if x == h {
				continue
			}
			for _, p := range x.Preds {
				if !body[p] {
					body[p] = true
					stack = append(stack, p)
				}
			}
		}
		if body[b] && (best == nil || len(body) < len(best)) {
			best = body
		}
	}
	return best
}

// VerifyNoWholeStore: every store of a whole value of the type goes into an
// object allocated by the storing function itself.
func VerifyNoWholeStore(P *Program, DB *ContractDB, nd *NoWholeStoreDecl, prop string) *FuncReport {
	vc := NewVC(P, DB, nil, nil, prop)
	vc.qname = "nowholestore " + nd.Type
	rep := &FuncReport{Func: vc.qname}
	n, loads := 0, 0
	for _, name := range sortedKeys(P.Funcs) {
		fn := P.Funcs[name]
		for _, b := range fn.Blocks {
			for _, in := range b.Instrs {
				if u, ok := in.(*ssa.UnOp); ok && u.Op == token.MUL && typeKey(u.Type()) == nd.Type {
					loads++
				}
				st, ok := in.(*ssa.Store)
				if !ok {
					continue
				}
				pt, ok := st.Addr.Type().Underlying().(*types.Pointer)
				if !ok || typeKey(pt.Elem()) != nd.Type {
					continue
				}
				n++
				goal := "false"
				if _, own := st.Addr.(*ssa.Alloc); own {
					goal = "true"
				}
				vc.oblige("writes", fmt.Sprintf("%s/%s/whole-store[%s#%d]", prop, vc.qname, name, n), "a whole "+nd.Type+" is stored only into an object the function allocated itself", "true", goal, st.Pos(), true)
			}
		}
	}
	// the declaration names an existing type that the module handles
	goal := "false"
	if P.lookupNamedType(nd.Type) {
		goal = "true"
	}
	vc.oblige("writes", fmt.Sprintf("%s/%s/type-exists", prop, vc.qname), fmt.Sprintf("the type exists (%d whole stores, %d whole loads in the module)", n, loads), "true", goal, 0, true)
	rep.Obligations = vc.obls
	return rep
}

func VerifyWrites(P *Program, DB *ContractDB, wd *WritesDecl, prop string) *FuncReport {
	vc := NewVC(P, DB, nil, nil, prop)
	vc.qname = fmt.Sprintf("writes (*%s).%s", wd.Recv, wd.Field)
	rep := &FuncReport{Func: vc.qname}
	n := 0
	found := false
	for _, name := range sortedKeys(P.Funcs) {
		fn := P.Funcs[name]
		for _, b := range fn.Blocks {
			for _, in := range b.Instrs {
				fa, ok := in.(*ssa.FieldAddr)
				if !ok {
					continue
				}
				T := fa.X.Type().Underlying().(*types.Pointer).Elem()
				st, _ := structOf(T)
				if typeKey(T) != wd.Recv || st.Field(fa.Field).Name() != wd.Field {
					continue
				}
				found = true
				for _, ref := range *fa.Referrers() {
					switch u := ref.(type) {
					case *ssa.UnOp, *ssa.DebugRef:
					case *ssa.Store:
						if u.Addr != fa {
							n++
							vc.oblige("writes", fmt.Sprintf("%s/%s/escapes[%s#%d]", prop, vc.qname, name, n), "address of the field is stored", "true", "false", u.Pos(), true)
							continue
						}
						n++
						goal := "false"
						if wd.Funcs[name] {
							goal = "true"
						}
						vc.oblige("writes", fmt.Sprintf("%s/%s/store-in[%s#%d]", prop, vc.qname, name, n), "field assigned only in: "+strings.Join(sortedKeys(wd.Funcs), ", "), "true", goal, u.Pos(), true)
					default:
						n++
						vc.oblige("writes", fmt.Sprintf("%s/%s/escapes[%s#%d]", prop, vc.qname, name, n), fmt.Sprintf("address of the field used by %T", ref), "true", "false", ref.Pos(), true)
					}
				}
			}
		}
	}
	if !found {
		rep.Errors = append(rep.Errors, fmt.Sprintf("writes: field (*%s).%s not found in any function", wd.Recv, wd.Field))
	}
	rep.Obligations = vc.obls
	return rep
}

// VerifyConstGlobal: the variable is stored exactly once, in its package's init,
// with a freshly allocated object; its address is not taken elsewhere.
func VerifyConstGlobal(P *Program, DB *ContractDB, name string, prop string) *FuncReport {
	vc := NewVC(P, DB, nil, nil, prop)
	vc.qname = "constglobal " + name
	rep := &FuncReport{Func: vc.qname}
	n := 0
	stores := 0
	for _, fname := range sortedKeys(P.Funcs) {
		fn := P.Funcs[fname]
		for _, b := range fn.Blocks {
			for _, in := range b.Instrs {
				for _, op := range in.Operands(nil) {
					g, ok := (*op).(*ssa.Global)
					if !ok || shortPkg(g.Pkg.Pkg.Path())+"."+g.Name() != name {
						continue
					}
					n++
					switch u := in.(type) {
					case *ssa.UnOp, *ssa.DebugRef:
					case *ssa.Store:
						goal := "false"
						if u.Addr == g && fn.Name() == "init" && fn.Pkg == g.Pkg {
							switch ptrSource(u.Val).(type) {
							case *ssa.Alloc, *ssa.MakeMap, *ssa.MakeChan, *ssa.MakeSlice:
								goal = "true"
								stores++
							case *ssa.Call:
								// initialiser expression is a constructor call (status.New, Copy, ...):
								// assumed to return a fresh object
								goal = "true"
								stores++
								vc.Assumptions["initialiser of "+name+" returns a freshly allocated object"] = true
							}
						}
						vc.oblige("writes", fmt.Sprintf("%s/%s/store[%s#%d]", prop, vc.qname, fname, n), "assigned only in init, with a fresh object", "true", goal, in.Pos(), true)
					default:
						vc.oblige("writes", fmt.Sprintf("%s/%s/escapes[%s#%d]", prop, vc.qname, fname, n), fmt.Sprintf("address used by %T", in), "true", "false", in.Pos(), true)
					}
				}
			}
		}
	}
	goal := "true"
	if stores != 1 {
		goal = "false"
	}
	vc.oblige("writes", fmt.Sprintf("%s/%s/assigned-once", prop, vc.qname), "exactly one initialising store", "true", goal, 0, true)
	for a := range vc.Assumptions {
		rep.Assumptions = append(rep.Assumptions, a)
	}
	rep.Obligations = vc.obls
	return rep
}

func ptrSource(v ssa.Value) ssa.Value {
	for {
		switch x := v.(type) {
		case *ssa.ChangeType:
			v = x.X
		case *ssa.MakeInterface:
			v = x.X
		default:
			return v
		}
	}
}

// VerifyZeroGlobal: the variable is never assigned (neither as a whole nor
// through a field or element address), so it keeps the zero value it is declared with.
func VerifyZeroGlobal(P *Program, DB *ContractDB, name string, prop string) *FuncReport {
	vc := NewVC(P, DB, nil, nil, prop)
	vc.qname = "zeroglobal " + name
	rep := &FuncReport{Func: vc.qname}
	n := 0
	found := false
	for _, fname := range sortedKeys(P.Funcs) {
		fn := P.Funcs[fname]
		for _, b := range fn.Blocks {
			for _, in := range b.Instrs {
				for _, op := range in.Operands(nil) {
					g, ok := (*op).(*ssa.Global)
					if !ok || shortPkg(g.Pkg.Pkg.Path())+"."+g.Name() != name {
						continue
					}
					found = true
					n++
					switch in.(type) {
					case *ssa.UnOp, *ssa.DebugRef:
						continue
					}
					vc.oblige("writes", fmt.Sprintf("%s/%s/never-written[%s#%d]", prop, vc.qname, fname, n), fmt.Sprintf("the variable is only read (found %T)", in), "true", "false", in.Pos(), true)
				}
			}
		}
	}
	goal := "true"
	if !found {
		goal = "false"
	}
	vc.oblige("writes", fmt.Sprintf("%s/%s/declared-and-read", prop, vc.qname), "the variable exists and is read", "true", goal, 0, true)
	// it must also be declared without an initialiser other than the zero composite
	rep.Obligations = vc.obls
	return rep
}

// VerifyEnum: every package-level variable of the given type, in every loaded
// module package, is named in the spec function (e.g. the list of shared sentinels).
func VerifyEnum(P *Program, DB *ContractDB, en *EnumDecl, prop string) *FuncReport {
	vc := NewVC(P, DB, nil, nil, prop)
	vc.qname = "enumerates " + en.Spec
	rep := &FuncReport{Func: vc.qname}
	sf := DB.Specs[en.Spec]
	env := vc.newEnv(&FuncContract{Name: vc.qname, Pkg: en.Pkg}, vc.entry, vc.entry)
	T := env.resolveType(en.Type)
	if sf == nil || sf.Body == nil || T == nil {
		rep.Errors = append(rep.Errors, fmt.Sprintf("enumerates %s %s: unknown spec function or type", en.Spec, en.Type))
		return rep
	}
	body := sf.Body.String()
	n := 0
	for _, p := range P.Pkgs {
		sc := p.Types.Scope()
		for _, name := range sc.Names() {
			v, ok := sc.Lookup(name).(*types.Var)
			if !ok || !types.Identical(v.Type(), T) {
				continue
			}
			n++
			q := shortPkg(p.PkgPath) + "." + name
			goal := "false"
			if strings.Contains(body, q) || containsIdent(body, p.Types.Name()+"."+name) || (shortPkg(p.PkgPath) == sf.Pkg && containsIdent(body, name)) {
				goal = "true"
			}
			o := vc.oblige("enum", fmt.Sprintf("%s/%s/listed[%s]", prop, vc.qname, q), fmt.Sprintf("package-level %s %s is covered by spec fn %s", en.Type, q, en.Spec), "true", goal, v.Pos(), true)
			_ = o
		}
	}
	if n == 0 {
		rep.Errors = append(rep.Errors, "enumerates: no variable of type "+en.Type)
	}
	rep.Obligations = vc.obls
	return rep
}

func containsIdent(s, id string) bool {
	for i := 0; i+len(id) <= len(s); i++ {
		if s[i:i+len(id)] == id {
			before := i == 0 || !isIdentChar(s[i-1])
			after := i+len(id) == len(s) || !isIdentChar(s[i+len(id)])
			if before && after {
				return true
			}
		}
	}
	return false
}

func isIdentChar(c byte) bool {
	return c == '_' || c >= '0' && c <= '9' || c >= 'a' && c <= 'z' || c >= 'A' && c <= 'Z'
}

// VerifyCallSites: every call of one of the listed callees anywhere in the
// module sits in a function that is under (verified) contract for the property,
// so its requires-clauses are obligations there.
func VerifyCallSites(P *Program, DB *ContractDB, cs *CallSitesDecl, prop string) *FuncReport {
	vc := NewVC(P, DB, nil, nil, prop)
	var names []string
	for c := range cs.Callees {
		names = append(names, c)
	}
	sort.Strings(names)
	vc.qname = "callsites " + strings.Join(names, ",")
	if len(vc.qname) > 60 {
		vc.qname = vc.qname[:60] + "…"
	}
	rep := &FuncReport{Func: vc.qname}
	n := 0
	for _, fname := range sortedKeys(P.Funcs) {
		fn := P.Funcs[fname]
		for _, b := range fn.Blocks {
			for _, in := range b.Instrs {
				ci, ok := in.(ssa.CallInstruction)
				if !ok {
					continue
				}
				callee := ci.Common().StaticCallee()
				if callee == nil || !cs.Callees[calleeName(callee)] {
					continue
				}
				n++
				// closures are verified as part of their outermost named function when inlined;
				// require the function itself (or its parent) to be under contract
				owner := fn
				ok2 := false
				for owner != nil {
					if k := DB.Funcs[QualName(owner)]; k != nil && k.Kind == "func" && !k.Trusted && (k.hasProp(prop) || callSiteImplicit[QualName(owner)]) {
						ok2 = true
						break
					}
					owner = owner.Parent()
				}
				goal := "false"
				if ok2 {
					goal = "true"
				}
				vc.oblige("callsites", fmt.Sprintf("%s/callsite[%s in %s#%d]", prop, calleeName(callee), fname, n), "call site lies in a function under contract for "+prop, "true", goal, in.Pos(), true)
			}
		}
	}
	if n == 0 {
		rep.Errors = append(rep.Errors, "callsites: no call site found for "+strings.Join(names, ","))
	}
	rep.Obligations = vc.obls
	return rep
}

// VerifyFuncAlias: the function-typed variable is assigned exactly once, in init,
// with the named function.
func VerifyFuncAlias(P *Program, DB *ContractDB, name, full, prop string) *FuncReport {
	vc := NewVC(P, DB, nil, nil, prop)
	vc.qname = "funcalias " + name
	rep := &FuncReport{Func: vc.qname}
	n, stores := 0, 0
	for _, fname := range sortedKeys(P.Funcs) {
		fn := P.Funcs[fname]
		for _, b := range fn.Blocks {
			for _, in := range b.Instrs {
				for _, op := range in.Operands(nil) {
					g, ok := (*op).(*ssa.Global)
					if !ok || shortPkg(g.Pkg.Pkg.Path())+"."+g.Name() != name {
						continue
					}
					n++
					switch u := in.(type) {
					case *ssa.UnOp, *ssa.DebugRef:
					case *ssa.Store:
						goal := "false"
						if f, ok := ptrSource(u.Val).(*ssa.Function); ok && u.Addr == g && fn.Name() == "init" && fullName(f) == full {
							goal = "true"
							stores++
						}
						vc.oblige("writes", fmt.Sprintf("%s/%s/store[%s#%d]", prop, vc.qname, fname, n), "assigned only in init, with "+full, "true", goal, in.Pos(), true)
					default:
						vc.oblige("writes", fmt.Sprintf("%s/%s/escapes[%s#%d]", prop, vc.qname, fname, n), fmt.Sprintf("address used by %T", in), "true", "false", in.Pos(), true)
					}
				}
			}
		}
	}
	goal := "true"
	if stores != 1 {
		goal = "false"
	}
	vc.oblige("writes", fmt.Sprintf("%s/%s/assigned-once", prop, vc.qname), "exactly one initialising store", "true", goal, 0, true)
	rep.Assumptions = append(rep.Assumptions, "exported variable "+name+" is not reassigned by code outside the module")
	rep.Obligations = vc.obls
	return rep
}
