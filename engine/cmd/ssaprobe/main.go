package main

import (
	"fmt"
	"go/types"
	"os"
	"time"

	"golang.org/x/tools/go/packages"
	"golang.org/x/tools/go/ssa"
	"golang.org/x/tools/go/ssa/ssautil"
)

func main() {
	t0 := time.Now()
	cfg := &packages.Config{
		Mode:       packages.NeedName | packages.NeedFiles | packages.NeedCompiledGoFiles | packages.NeedImports | packages.NeedTypes | packages.NeedTypesSizes | packages.NeedSyntax | packages.NeedTypesInfo | packages.NeedDeps,
		Dir:        "/repo",
		BuildFlags: []string{"-tags=verif"},
		Env:        append(os.Environ(), "GOFLAGS=-mod=mod", "GOPROXY=off", "GOSUMDB=off", "GOTOOLCHAIN=local"),
	}
	pkgs, err := packages.Load(cfg, os.Args[1])
	if err != nil {
		panic(err)
	}
	fmt.Fprintln(os.Stderr, "load", time.Since(t0))
	prog, spkgs := ssautil.Packages(pkgs, ssa.GlobalDebug)
	_ = prog
	for _, p := range spkgs {
		if p != nil {
			p.Build()
		}
	}
	fmt.Fprintln(os.Stderr, "ssa", time.Since(t0))
	for _, p := range spkgs {
		for _, name := range os.Args[2:] {
			if m := p.Members[name]; m != nil {
				if f, ok := m.(*ssa.Function); ok {
					f.WriteTo(os.Stdout)
				}
				if t, ok := m.(*ssa.Type); ok {
					ms := prog.MethodSets.MethodSet(t.Type())
					_ = ms
				}
			}
			for _, mem := range p.Members {
				if t, ok := mem.(*ssa.Type); ok {
					for _, T := range []interface{ String() string }{t.Type()} {
						_ = T
					}
					mset := prog.MethodSets.MethodSet(ptrTo(t))
					for i := 0; i < mset.Len(); i++ {
						fn := prog.MethodValue(mset.At(i))
						if fn != nil && fn.Name() == name && fn.Pkg == p {
							fn.WriteTo(os.Stdout)
						}
					}
				}
			}
		}
	}
}

func ptrTo(t *ssa.Type) types.Type { return types.NewPointer(t.Type()) }
