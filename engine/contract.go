package main

import (
	"bufio"
	"fmt"
	"os"
	"path/filepath"
	"regexp"
	"strconv"
	"strings"
)

// Clause is one named requires/ensures/invariant.
type Clause struct {
	Kind    string // requires ensures invariant decreases assert
	Name    string
	Src     string
	E       Expr
	Claimed bool     // false for "ensures?[...]"
	Props   []string // restriction "@C06"; empty = all properties of the function
	File    string
	Line    int
	OnPanic bool // ensures evaluated on the exceptional exit as well
	OnlyPanic bool // "!!": ensures about the recovered/exceptional exit only
}

type LetDef struct {
	Name string
	E    Expr
	Src  string
}

type LoopSpec struct {
	Ordinal    int
	Invariants []*Clause
	Decreases  *Clause
	Modifies   []Expr
}

// FuncContract is a contract on a function of the module ("func"), on an
// external/library function ("ext", assumed), or on an interface method
// ("iface", assumed for arbitrary implementers).
type FuncContract struct {
	Kind      string // func ext iface
	Name      string // qualified name, e.g. "socket.(*message).Reset"
	Pkg       string // short package of the contract file
	Props     []string
	Flags     map[string]bool
	Params    []string // explicit parameter names for ext/iface (receiver first)
	Requires  []*Clause
	Ensures   []*Clause
	Lets      []*LetDef
	SpawnSets []*GhostSet // "spawnset loc = expr": ghost assignments performed where the function is started with a go statement
	GhostSets []*GhostSet // ghost assignments performed at the normal exit (ghost code of the contract)
	Modifies  []Expr
	ModAll    bool
	HasMod    bool
	Loops     map[int]*LoopSpec
	File      string
	Line      int
	Trusted   bool // "func" contract that is used at call sites but whose body is not verified (stated)
}

// GhostSet: "ghostset loc = expr": at the normal exit the ghost location gets
// the value of expr (old() = entry state, everything else = exit state).
type GhostSet struct {
	Loc  Expr
	Val  Expr
	Src  string
	Line int
}

type SpecFn struct {
	Name   string
	Params []QVar
	Ret    string
	Body   Expr // nil = uninterpreted
	Src    string
	Pkg    string
}

type GhostDecl struct {
	Global bool
	Recv   string // type key for field
	Name   string
	Sort   string
}

type Axiom struct {
	Name string
	E    Expr
	Src  string
	Pkg  string
	File string
}

type Lemma struct {
	Name  string
	Props []string
	E     Expr
	Src   string
	Pkg   string
	File  string
	Line  int
}

type FieldClass struct {
	Recv  string // type key e.g. "erpc.session"
	Field string
	Class string // atomic | guarded_by | immutable | confined | sync | trusted
	Arg   string // lock field for guarded_by; reason otherwise
	File  string
	Line  int
}

// CoverDecl: the spec function must mention every field of the struct type
// (a new field without a reset clause fails "unreset-field").
type CoverDecl struct {
	Spec   string
	Type   string
	Props  []string
	Except map[string]bool
	File   string
	Line   int
	Pkg    string
}

// PerCaptureDecl: a closure created inside a loop captures only variables that
// are allocated in that same loop iteration (each iteration's closure has its own
// copy), so closure i keeps what iteration i computed. Vars lists the captured
// variables the declaration is about (all captured cells if empty).
type PerCaptureDecl struct {
	Closure string
	Vars    map[string]bool
	Props   []string
	Line    int
}

// NoWholeStoreDecl: no module function assigns a whole value of the struct type
// through a pointer (*p = v), except into an object it allocated itself. Closes
// the one way of changing a library struct with unexported fields from outside
// its package without calling one of its methods.
type NoWholeStoreDecl struct {
	Type  string
	Props []string
	Line  int
}

// WritesDecl: a field is assigned only inside the listed functions (and its
// address never escapes) – justifies object invariants over that field.
type WritesDecl struct {
	Recv, Field string
	Funcs       map[string]bool
	Props       []string
	File        string
	Line        int
}

// SharedInv: invariant of a shared field that every goroutine maintains (rely =
// guarantee = the invariant): assumed after interference, checked after every
// atomic write.
type SharedInv struct {
	Rely    Expr // assumed after interference, not checked (stated assumption)
	RelySrc string
	E    Expr
	Src  string
	Recv string
	Pkg  string
}

// LockInv: "lockinv (*T).mu protects f g #h :: inv": the fields are only accessed
// with the mutex held; the invariant (over self) is assumed when the mutex of a
// pre-existing object is acquired (after forgetting the protected fields: other
// goroutines may have changed them) and is an obligation at every release.
type LockInv struct {
	Recv   string // "erpc.callCmd"
	Mutex  string
	Fields []string
	E      Expr
	Src    string
	Pkg    string
	Props  []string
}

// GuardedDecl: "guarded (*T).f by mu [@Cnn]": every read of field f happens with
// mu held (read- or write-locked), every write with mu write-locked, unless the
// object was created by the accessing function itself (not yet shared).
type GuardedDecl struct {
	Recv  string // "socket.socket"
	Field string
	Mutex string
	Props []string
	Line  int
	Except map[string]bool // functions whose accesses are ordered by other means (documented)
}

// FrameSet: a named, parameterised modifies set ("frameset name(p T, ...) = items").
type FrameSet struct {
	Name   string
	Params []QVar
	Items  []Expr
	Pkg    string
}

type EnumDecl struct {
	Spec, Type string
	Props      []string
	File       string
	Line       int
	Pkg        string
}

type CallSitesDecl struct {
	Callees map[string]bool
	Props   []string
	File    string
	Line    int
}

type ContractDB struct {
	LibKeeps map[string]bool // library struct types whose fields uncontracted library calls do not modify
	FrameSets map[string]*FrameSet
	SharedInv      map[string]*SharedInv
	LockInvs       map[string]*LockInv // "erpc.callCmd.mu"
	Guarded        map[string]*GuardedDecl // "socket.socket.id"
	Enums          []*EnumDecl
	CallSites      []*CallSitesDecl
	FuncAlias      map[string]string // "pkg.Var" -> full name of the function the variable is initialised with
	FuncAliasProps map[string][]string
	Shared         map[string]bool     // "pkg.T.field": atomically accessed field subject to arbitrary interference between steps
	LibFrame       map[string]bool     // library packages assumed not to touch module-private state
	ZeroGlobals    map[string][]string // "pkg.name" -> properties: never assigned, keeps its zero value
	ConstGlobals   map[string][]string // "pkg.name" -> properties: assigned once in init with a fresh object
	Writes         []*WritesDecl
	NoWholeStore   []*NoWholeStoreDecl
	PerCapture     []*PerCaptureDecl
	Covers         []*CoverDecl
	Funcs          map[string]*FuncContract
	Specs          map[string]*SpecFn
	Ghosts         map[string]*GhostDecl
	Axioms         []*Axiom
	Lemmas         []*Lemma
	Sealed         map[string]string // interface type key -> concrete type text
	Pure           map[string]bool   // functions declared pure (no heap effect)
	Classes        []*FieldClass
	Files          []string
	// file-scoped package context for name resolution
	FilePkg map[string]string // file -> package import path
}

var clauseRe = regexp.MustCompile(`^(requires|ensures|invariant|assert)(\?)?(\[[^\]]*\])?(!!|!)?\s*(.*)$`)

var topKeywords = map[string]bool{"guarded": true, "lockinv": true, "libkeeps": true, "frameset": true, "shared": true, "funcalias": true, "libframe": true, "enumerates": true, "callsites": true, "zeroglobal": true, "constglobal": true, "writes": true, "nowholestore": true, "percapture": true, "covers": true, "func": true, "ext": true, "iface": true, "spec": true, "ghost": true, "axiom": true, "sealed": true, "lemma": true, "pure": true, "class": true, "trusted": true}
var subKeywords = map[string]bool{"spawnset": true, "ghostset": true, "property": true, "flags": true, "requires": true, "ensures": true, "modifies": true, "loop": true, "let": true, "params": true}

func firstWord(s string) string {
	s = strings.TrimSpace(s)
	for i, c := range s {
		if !(c == '_' || c >= 'a' && c <= 'z' || c >= 'A' && c <= 'Z') {
			return s[:i]
		}
	}
	return s
}

// LoadContracts reads every contracts_verif.go of the loaded module packages
// plus the shared spec files in specDir.
func LoadContracts(P *Program, specDir string) (*ContractDB, error) {
	db := &ContractDB{Funcs: map[string]*FuncContract{}, Specs: map[string]*SpecFn{}, Ghosts: map[string]*GhostDecl{},
		Sealed: map[string]string{}, Pure: map[string]bool{}, FilePkg: map[string]string{}}
	var files []string
	filePkg := map[string]string{}
	for _, p := range P.Pkgs {
		for _, f := range p.CompiledGoFiles {
			if filepath.Base(f) == "contracts_verif.go" {
				files = append(files, f)
				filePkg[f] = p.PkgPath
			}
		}
	}
	specs, _ := filepath.Glob(filepath.Join(specDir, "*.spec"))
	for _, f := range specs {
		files = append(files, f)
		filePkg[f] = ModPath
	}
	for _, f := range files {
		db.Files = append(db.Files, f)
		db.FilePkg[f] = filePkg[f]
		if err := db.parseFile(f, shortPkg(filePkg[f])); err != nil {
			return nil, err
		}
	}
	return db, nil
}

type rawLine struct {
	text string
	line int
}

func (db *ContractDB) parseFile(path, pkg string) error {
	fh, err := os.Open(path)
	if err != nil {
		return err
	}
	defer fh.Close()
	var lines []rawLine
	sc := bufio.NewScanner(fh)
	sc.Buffer(make([]byte, 1<<20), 1<<20)
	n := 0
	for sc.Scan() {
		n++
		t := strings.TrimSpace(sc.Text())
		if !strings.HasPrefix(t, "//@") {
			continue
		}
		t = strings.TrimSpace(strings.TrimPrefix(t, "//@"))
		if i := strings.Index(t, " //"); i >= 0 { // trailing comment
			t = strings.TrimSpace(t[:i])
		}
		if t == "" || strings.HasPrefix(t, "//") {
			continue
		}
		w := firstWord(t)
		if !topKeywords[w] && !subKeywords[w] && len(lines) > 0 {
			lines[len(lines)-1].text += " " + t
			continue
		}
		lines = append(lines, rawLine{t, n})
	}
	var cur *FuncContract
	fail := func(l rawLine, f string, a ...any) error {
		return fmt.Errorf("%s:%d: %s", path, l.line, fmt.Sprintf(f, a...))
	}
	for _, l := range lines {
		w := firstWord(l.text)
		rest := strings.TrimSpace(strings.TrimPrefix(l.text, w))
		switch w {
		case "func", "ext", "iface", "trusted":
			name := rest
			if w == "func" || w == "trusted" {
				name = qualifyFuncName(pkg, name)
			}
			kind := w
			trusted := false
			if w == "trusted" {
				kind = "func"
				trusted = true
			}
			cur = &FuncContract{Kind: kind, Name: name, Pkg: pkg, Flags: map[string]bool{}, Loops: map[int]*LoopSpec{}, File: path, Line: l.line, Trusted: trusted}
			if _, dup := db.Funcs[name]; dup {
				return fail(l, "duplicate contract for %s", name)
			}
			db.Funcs[name] = cur
		case "pure":
			for _, f := range strings.Fields(rest) {
				db.Pure[f] = true
			}
			cur = nil
		case "property":
			if cur == nil {
				return fail(l, "property outside a contract")
			}
			cur.Props = append(cur.Props, strings.Fields(rest)...)
		case "flags":
			if cur == nil {
				return fail(l, "flags outside a contract")
			}
			for _, f := range strings.Fields(rest) {
				cur.Flags[f] = true
			}
		case "params":
			cur.Params = strings.Fields(rest)
		case "requires", "ensures":
			if cur == nil {
				return fail(l, "clause outside a contract")
			}
			c, err := parseClause(l.text, path, l.line)
			if err != nil {
				return fail(l, "%v", err)
			}
			if c.Kind == "requires" {
				cur.Requires = append(cur.Requires, c)
			} else {
				cur.Ensures = append(cur.Ensures, c)
			}
		case "let":
			i := strings.Index(rest, "=")
			if cur == nil || i < 0 {
				return fail(l, "bad let")
			}
			e, err := ParseExpr(strings.TrimSpace(rest[i+1:]))
			if err != nil {
				return fail(l, "%v", err)
			}
			cur.Lets = append(cur.Lets, &LetDef{strings.TrimSpace(rest[:i]), e, rest})
		case "ghostset", "spawnset":
			i := strings.Index(rest, "=")
			if cur == nil || i < 0 {
				return fail(l, "ghostset loc = expr")
			}
			le, err := ParseExpr(strings.TrimSpace(rest[:i]))
			if err != nil {
				return fail(l, "%v", err)
			}
			ve, err := ParseExpr(strings.TrimSpace(rest[i+1:]))
			if err != nil {
				return fail(l, "%v", err)
			}
			if w == "spawnset" {
				cur.SpawnSets = append(cur.SpawnSets, &GhostSet{Loc: le, Val: ve, Src: rest, Line: l.line})
			} else {
				cur.GhostSets = append(cur.GhostSets, &GhostSet{Loc: le, Val: ve, Src: rest, Line: l.line})
			}
		case "modifies":
			if cur == nil {
				return fail(l, "modifies outside a contract")
			}
			cur.HasMod = true
			if strings.TrimSpace(rest) == "all" {
				cur.ModAll = true
				break
			}
			if strings.TrimSpace(rest) == "nothing" {
				break
			}
			for _, it := range splitTop(rest) {
				e, err := ParseExpr(it)
				if err != nil {
					return fail(l, "%v", err)
				}
				cur.Modifies = append(cur.Modifies, e)
			}
		case "loop":
			if cur == nil {
				return fail(l, "loop outside a contract")
			}
			i := strings.Index(rest, ":")
			if i < 0 {
				return fail(l, "loop k: ...")
			}
			k, err := strconv.Atoi(strings.TrimSpace(rest[:i]))
			if err != nil {
				return fail(l, "loop ordinal: %v", err)
			}
			ls := cur.Loops[k]
			if ls == nil {
				ls = &LoopSpec{Ordinal: k}
				cur.Loops[k] = ls
			}
			body := strings.TrimSpace(rest[i+1:])
			switch firstWord(body) {
			case "invariant":
				c, err := parseClause(body, path, l.line)
				if err != nil {
					return fail(l, "%v", err)
				}
				ls.Invariants = append(ls.Invariants, c)
			case "decreases":
				e, err := ParseExpr(strings.TrimSpace(strings.TrimPrefix(body, "decreases")))
				if err != nil {
					return fail(l, "%v", err)
				}
				ls.Decreases = &Clause{Kind: "decreases", Name: "decreases", E: e, Src: body, Claimed: true, File: path, Line: l.line}
			case "modifies":
				for _, it := range splitTop(strings.TrimSpace(strings.TrimPrefix(body, "modifies"))) {
					e, err := ParseExpr(it)
					if err != nil {
						return fail(l, "%v", err)
					}
					ls.Modifies = append(ls.Modifies, e)
				}
			default:
				return fail(l, "loop clause must be invariant/decreases/modifies")
			}
		case "spec":
			cur = nil
			sf, err := parseSpecFn(rest)
			if err != nil {
				return fail(l, "%v", err)
			}
			sf.Pkg = pkg
			db.Specs[sf.Name] = sf
		case "ghost":
			cur = nil
			f := strings.Fields(rest)
			if len(f) == 3 && f[0] == "field" {
				i := strings.LastIndex(f[1], ".")
				if i < 0 {
					return fail(l, "ghost field (*T).name sort")
				}
				recv := strings.Trim(f[1][:i], "(*)")
				if !strings.Contains(recv, ".") {
					recv = pkg + "." + recv
				}
				db.Ghosts["field:"+f[1][i+1:]] = &GhostDecl{Recv: recv, Name: f[1][i+1:], Sort: f[2]}
			} else if len(f) == 3 && f[0] == "global" {
				db.Ghosts["global:"+f[1]] = &GhostDecl{Global: true, Name: f[1], Sort: f[2]}
			} else {
				return fail(l, "bad ghost declaration")
			}
		case "axiom":
			cur = nil
			name := ""
			if strings.HasPrefix(rest, "[") {
				j := strings.Index(rest, "]")
				name = rest[1:j]
				rest = strings.TrimSpace(rest[j+1:])
			}
			e, err := ParseExpr(rest)
			if err != nil {
				return fail(l, "%v", err)
			}
			db.Axioms = append(db.Axioms, &Axiom{name, e, rest, pkg, path})
		case "lemma":
			cur = nil
			// lemma name @C12 @C05: expr
			i := strings.Index(rest, ":")
			if i < 0 {
				return fail(l, "lemma name: expr")
			}
			hd := strings.Fields(rest[:i])
			lm := &Lemma{Name: hd[0], Src: strings.TrimSpace(rest[i+1:]), Pkg: pkg, File: path, Line: l.line}
			for _, h := range hd[1:] {
				lm.Props = append(lm.Props, strings.TrimPrefix(h, "@"))
			}
			e, err := ParseExpr(lm.Src)
			if err != nil {
				return fail(l, "%v", err)
			}
			lm.E = e
			db.Lemmas = append(db.Lemmas, lm)
		case "frameset":
			cur = nil
			i := strings.Index(rest, "(")
			j := matchParen(rest, i)
			k := strings.Index(rest, "=")
			if i < 0 || j < 0 || k < j {
				return fail(l, "frameset name(p T, ...) = items")
			}
			fsd := &FrameSet{Name: strings.TrimSpace(rest[:i]), Pkg: pkg}
			for _, p := range splitTop(rest[i+1 : j]) {
				f := strings.Fields(p)
				if len(f) != 2 {
					return fail(l, "bad frameset parameter %q", p)
				}
				fsd.Params = append(fsd.Params, QVar{f[0], f[1]})
			}
			for _, it := range splitTop(rest[k+1:]) {
				e, err := ParseExpr(it)
				if err != nil {
					return fail(l, "%v", err)
				}
				fsd.Items = append(fsd.Items, e)
			}
			if db.FrameSets == nil {
				db.FrameSets = map[string]*FrameSet{}
			}
			db.FrameSets[fsd.Name] = fsd
		case "guarded":
			cur = nil
			f := strings.Fields(rest)
			if len(f) < 3 || f[1] != "by" {
				return fail(l, "guarded (*T).f by mu [@Cnn]")
			}
			i := strings.LastIndex(f[0], ".")
			recv := strings.Trim(f[0][:i], "(*)")
			if !strings.Contains(recv, ".") {
				recv = pkg + "." + recv
			}
			gd := &GuardedDecl{Recv: recv, Field: f[0][i+1:], Mutex: f[2], Line: l.line, Except: map[string]bool{}}
			ex := false
			for _, w := range f[3:] {
				switch {
				case strings.HasPrefix(w, "@"):
					gd.Props = append(gd.Props, w[1:])
				case w == "except":
					ex = true
				case ex:
					gd.Except[qualifyFuncName(pkg, w)] = true
				}
			}
			if db.Guarded == nil {
				db.Guarded = map[string]*GuardedDecl{}
			}
			db.Guarded[recv+"."+gd.Field] = gd
		case "lockinv":
			cur = nil
			k := strings.Index(rest, "::")
			if k < 0 {
				return fail(l, "lockinv (*T).mu [@Cnn] protects f g #h :: inv")
			}
			invSrc := strings.TrimSpace(rest[k+2:])
			e, err := ParseExpr(invSrc)
			if err != nil {
				return fail(l, "%v", err)
			}
			f := strings.Fields(rest[:k])
			if len(f) < 2 {
				return fail(l, "lockinv (*T).mu protects ...")
			}
			i := strings.LastIndex(f[0], ".")
			recv := strings.Trim(f[0][:i], "(*)")
			if !strings.Contains(recv, ".") {
				recv = pkg + "." + recv
			}
			li := &LockInv{Recv: recv, Mutex: f[0][i+1:], E: e, Src: invSrc, Pkg: pkg}
			for _, w := range f[1:] {
				switch {
				case w == "protects":
				case strings.HasPrefix(w, "@"):
					li.Props = append(li.Props, w[1:])
				default:
					li.Fields = append(li.Fields, w)
				}
			}
			if db.LockInvs == nil {
				db.LockInvs = map[string]*LockInv{}
			}
			db.LockInvs[recv+"."+li.Mutex] = li
		case "shared":
			cur = nil
			// shared (*T).field ...
			if db.Shared == nil {
				db.Shared = map[string]bool{}
			}
			// shared (*T).field [inv <expr over self>]
			decl := rest
			var inv Expr
			invSrc := ""
			var rely Expr
			relySrc := ""
			if k := strings.Index(rest, " rely "); k >= 0 {
				relySrc = strings.TrimSpace(rest[k+6:])
				rest = rest[:k]
				decl = rest
				e, err := ParseExpr(relySrc)
				if err != nil {
					return fail(l, "%v", err)
				}
				rely = e
			}
			if k := strings.Index(rest, " inv "); k >= 0 {
				decl = rest[:k]
				invSrc = strings.TrimSpace(rest[k+5:])
				e, err := ParseExpr(invSrc)
				if err != nil {
					return fail(l, "%v", err)
				}
				inv = e
			}
			for _, f := range strings.Fields(decl) {
				i := strings.LastIndex(f, ".")
				if i < 0 {
					return fail(l, "shared (*T).field")
				}
				recv := strings.Trim(f[:i], "(*)")
				if !strings.Contains(recv, ".") {
					recv = pkg + "." + recv
				}
				db.Shared[recv+"."+f[i+1:]] = true
				if inv != nil || rely != nil {
					if db.SharedInv == nil {
						db.SharedInv = map[string]*SharedInv{}
					}
					db.SharedInv[recv+"."+f[i+1:]] = &SharedInv{E: inv, Src: invSrc, Recv: recv, Pkg: pkg, Rely: rely, RelySrc: relySrc}
				}
			}
		case "funcalias":
			cur = nil
			// funcalias erpc.NewStatus => github.com/henrylee2cn/goutil/status.New @C15
			parts := strings.Split(rest, "=>")
			if len(parts) != 2 {
				return fail(l, "funcalias pkg.Var => full.Func [@Cnn]")
			}
			if db.FuncAlias == nil {
				db.FuncAlias = map[string]string{}
				db.FuncAliasProps = map[string][]string{}
			}
			v := strings.TrimSpace(parts[0])
			if !strings.Contains(v, ".") {
				v = pkg + "." + v
			}
			rf := strings.Fields(parts[1])
			db.FuncAlias[v] = rf[0]
			for _, w := range rf[1:] {
				db.FuncAliasProps[v] = append(db.FuncAliasProps[v], strings.TrimPrefix(w, "@"))
			}
		case "libkeeps":
			cur = nil
			if db.LibKeeps == nil {
				db.LibKeeps = map[string]bool{}
			}
			for _, f := range strings.Fields(rest) {
				db.LibKeeps[f] = true
			}
		case "libframe":
			cur = nil
			if db.LibFrame == nil {
				db.LibFrame = map[string]bool{}
			}
			for _, f := range strings.Fields(rest) {
				db.LibFrame[f] = true
			}
		case "enumerates":
			cur = nil
			// enumerates specfn <type text> @Cnn : every package-level variable of that type is mentioned in the spec fn
			f := strings.Fields(rest)
			if len(f) < 2 {
				return fail(l, "enumerates specfn type [@Cnn]")
			}
			en := &EnumDecl{Spec: f[0], Type: f[1], File: path, Line: l.line, Pkg: pkg}
			for _, w := range f[2:] {
				en.Props = append(en.Props, strings.TrimPrefix(w, "@"))
			}
			db.Enums = append(db.Enums, en)
		case "callsites":
			cur = nil
			// callsites @Cnn callee callee ... : every module call site of the callees lies in a function under contract for Cnn
			cs := &CallSitesDecl{File: path, Line: l.line, Callees: map[string]bool{}}
			for _, w := range strings.Fields(rest) {
				if strings.HasPrefix(w, "@") {
					cs.Props = append(cs.Props, w[1:])
				} else {
					cs.Callees[w] = true
				}
			}
			db.CallSites = append(db.CallSites, cs)
		case "zeroglobal":
			cur = nil
			f := strings.Fields(rest)
			if len(f) < 1 {
				return fail(l, "zeroglobal name [@Cnn]")
			}
			n := f[0]
			if !strings.Contains(n, ".") {
				n = pkg + "." + n
			}
			if db.ZeroGlobals == nil {
				db.ZeroGlobals = map[string][]string{}
			}
			var zprops []string
			for _, w := range f[1:] {
				zprops = append(zprops, strings.TrimPrefix(w, "@"))
			}
			db.ZeroGlobals[n] = zprops
		case "constglobal":
			cur = nil
			f := strings.Fields(rest)
			if len(f) < 1 {
				return fail(l, "constglobal name [@Cnn]")
			}
			n := f[0]
			if !strings.Contains(n, ".") {
				n = pkg + "." + n
			}
			if db.ConstGlobals == nil {
				db.ConstGlobals = map[string][]string{}
			}
			var props []string
			for _, w := range f[1:] {
				props = append(props, strings.TrimPrefix(w, "@"))
			}
			db.ConstGlobals[n] = props
		case "writes":
			cur = nil
			// writes (*T).field only-in f g h @C20
			f := strings.Fields(rest)
			if len(f) < 3 || f[1] != "only-in" {
				return fail(l, "writes (*T).field only-in func... [@Cnn]")
			}
			i := strings.LastIndex(f[0], ".")
			recv := strings.Trim(f[0][:i], "(*)")
			if !strings.Contains(recv, ".") {
				recv = pkg + "." + recv
			}
			wd := &WritesDecl{Recv: recv, Field: f[0][i+1:], Funcs: map[string]bool{}, File: path, Line: l.line}
			for _, w := range f[2:] {
				if strings.HasPrefix(w, "@") {
					wd.Props = append(wd.Props, w[1:])
				} else {
					wd.Funcs[qualifyFuncName(pkg, w)] = true
				}
			}
			db.Writes = append(db.Writes, wd)
		case "percapture":
			cur = nil
			// percapture closureName [var...] [@Cnn]
			f := strings.Fields(rest)
			if len(f) < 1 {
				return fail(l, "percapture closure [var...] [@Cnn]")
			}
			pd := &PerCaptureDecl{Closure: qualifyFuncName(pkg, f[0]), Vars: map[string]bool{}, Line: l.line}
			for _, w := range f[1:] {
				if strings.HasPrefix(w, "@") {
					pd.Props = append(pd.Props, w[1:])
				} else {
					pd.Vars[w] = true
				}
			}
			db.PerCapture = append(db.PerCapture, pd)
		case "nowholestore":
			cur = nil
			f := strings.Fields(rest)
			if len(f) < 1 {
				return fail(l, "nowholestore pkg.Type [@Cnn]")
			}
			nd := &NoWholeStoreDecl{Type: f[0], Line: l.line}
			for _, w := range f[1:] {
				nd.Props = append(nd.Props, strings.TrimPrefix(w, "@"))
			}
			db.NoWholeStore = append(db.NoWholeStore, nd)
		case "covers":
			cur = nil
			// covers specfn pkg.Type @C20 except a b c
			f := strings.Fields(rest)
			if len(f) < 2 {
				return fail(l, "covers specfn pkg.Type [@Cnn] [except f...]")
			}
			cd := &CoverDecl{Spec: f[0], Type: f[1], Except: map[string]bool{}, File: path, Line: l.line, Pkg: pkg}
			ex := false
			for _, w := range f[2:] {
				switch {
				case strings.HasPrefix(w, "@"):
					cd.Props = append(cd.Props, w[1:])
				case w == "except":
					ex = true
				case ex:
					cd.Except[w] = true
				}
			}
			db.Covers = append(db.Covers, cd)
		case "sealed":
			cur = nil
			parts := strings.Split(rest, "=>")
			if len(parts) != 2 {
				return fail(l, "sealed I => *T")
			}
			db.Sealed[strings.TrimSpace(parts[0])] = strings.TrimSpace(parts[1])
		case "class":
			cur = nil
			// class (*session).status atomic | guarded_by lock | confined reason...
			f := strings.Fields(rest)
			if len(f) < 2 {
				return fail(l, "class (*T).field kind [arg]")
			}
			i := strings.LastIndex(f[0], ".")
			recv := strings.Trim(f[0][:i], "(*)")
			if !strings.Contains(recv, ".") {
				recv = pkg + "." + recv
			}
			db.Classes = append(db.Classes, &FieldClass{Recv: recv, Field: f[0][i+1:], Class: f[1], Arg: strings.Join(f[2:], " "), File: path, Line: l.line})
		default:
			return fail(l, "unknown directive %q", w)
		}
	}
	return nil
}

func parseClause(text, file string, line int) (*Clause, error) {
	m := clauseRe.FindStringSubmatch(text)
	if m == nil {
		return nil, fmt.Errorf("bad clause %q", text)
	}
	c := &Clause{Kind: m[1], Claimed: m[2] == "", Name: strings.Trim(m[3], "[]"), File: file, Line: line, OnPanic: m[4] == "!" || m[4] == "!!", OnlyPanic: m[4] == "!!"}
	src := m[5]
	// property restriction @Cnn at the start
	for strings.HasPrefix(src, "@C") {
		i := strings.IndexAny(src, " \t")
		if i < 0 {
			break
		}
		c.Props = append(c.Props, src[1:i])
		src = strings.TrimSpace(src[i:])
	}
	c.Src = src
	e, err := ParseExpr(src)
	if err != nil {
		return nil, err
	}
	c.E = e
	if c.Name == "" {
		c.Name = fmt.Sprintf("L%d", line)
	}
	return c, nil
}

func parseSpecFn(rest string) (*SpecFn, error) {
	// fn name(a T, b U) R [= expr]
	rest = strings.TrimSpace(strings.TrimPrefix(rest, "fn"))
	i := strings.Index(rest, "(")
	j := matchParen(rest, i)
	if i < 0 || j < 0 {
		return nil, fmt.Errorf("bad spec fn %q", rest)
	}
	sf := &SpecFn{Name: strings.TrimSpace(rest[:i]), Src: rest}
	for _, p := range splitTop(rest[i+1 : j]) {
		f := strings.Fields(p)
		if len(f) != 2 {
			return nil, fmt.Errorf("bad spec fn parameter %q", p)
		}
		sf.Params = append(sf.Params, QVar{f[0], f[1]})
	}
	tail := strings.TrimSpace(rest[j+1:])
	if k := strings.Index(tail, "="); k >= 0 {
		sf.Ret = strings.TrimSpace(tail[:k])
		e, err := ParseExpr(strings.TrimSpace(tail[k+1:]))
		if err != nil {
			return nil, err
		}
		sf.Body = e
	} else {
		sf.Ret = tail
	}
	if sf.Ret == "" {
		return nil, fmt.Errorf("spec fn %s: missing result sort", sf.Name)
	}
	return sf, nil
}

func matchParen(s string, i int) int {
	if i < 0 {
		return -1
	}
	d := 0
	for j := i; j < len(s); j++ {
		switch s[j] {
		case '(':
			d++
		case ')':
			d--
			if d == 0 {
				return j
			}
		}
	}
	return -1
}

// splitTop splits on commas that are not nested in brackets.
func splitTop(s string) []string {
	var out []string
	d := 0
	last := 0
	for i, c := range s {
		switch c {
		case '(', '[', '{':
			d++
		case ')', ']', '}':
			d--
		case ',':
			if d == 0 {
				out = append(out, strings.TrimSpace(s[last:i]))
				last = i + 1
			}
		}
	}
	if t := strings.TrimSpace(s[last:]); t != "" {
		out = append(out, t)
	}
	return out
}

func (c *FuncContract) hasProp(p string) bool {
	for _, q := range c.Props {
		if q == p {
			return true
		}
	}
	return false
}

func (c *Clause) appliesTo(prop string) bool {
	if len(c.Props) == 0 || prop == "" {
		return true
	}
	for _, q := range c.Props {
		if q == prop {
			return true
		}
	}
	return false
}

// qualifyFuncName prefixes the contract file's package unless the name is
// already package-qualified ("socket.NewMessage", "socket.(*message).Reset").
func qualifyFuncName(pkg, name string) string {
	if strings.HasPrefix(name, "(") {
		return pkg + "." + name
	}
	i := strings.Index(name, ".")
	if i < 0 || strings.Contains(name[:i], "$") {
		return pkg + "." + name
	}
	return name
}
