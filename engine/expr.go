package main

import (
	"fmt"
	"strings"
	"unicode"
)

// Contract expression AST. The concrete syntax is Go expression syntax plus
// ==>, <==>, forall/exists, old(e), result, result.k, x.#ghost, ghost.name.

type Expr interface{ String() string }

type (
	EIdent struct{ Name string }
	EInt   struct{ Val string }
	EStr   struct{ Val string }
	EBin   struct {
		Op   string
		L, R Expr
	}
	EUn struct {
		Op string
		X  Expr
	}
	ESel struct {
		X     Expr
		Name  string
		Ghost bool
	}
	EIndex struct{ X, I Expr }
	ESlice struct{ X, Lo, Hi Expr }
	ECall  struct {
		Fn   Expr
		Args []Expr
	}
	EQuant struct {
		Forall bool
		Vars   []QVar
		Body   Expr
		Pats   []Expr
	}
	EOld     struct{ X Expr }
	ECond    struct{ C, A, B Expr }
	ETypeLit struct{ T string } // type literal used as argument: type(*message)
)

type QVar struct{ Name, Type string }

func (e *EIdent) String() string { return e.Name }
func (e *EInt) String() string   { return e.Val }
func (e *EStr) String() string   { return fmt.Sprintf("%q", e.Val) }
func (e *EBin) String() string   { return "(" + e.L.String() + " " + e.Op + " " + e.R.String() + ")" }
func (e *EUn) String() string    { return e.Op + e.X.String() }
func (e *ESel) String() string {
	if e.Ghost {
		return e.X.String() + ".#" + e.Name
	}
	return e.X.String() + "." + e.Name
}
func (e *EIndex) String() string { return e.X.String() + "[" + e.I.String() + "]" }
func (e *ESlice) String() string {
	s := e.X.String() + "["
	if e.Lo != nil {
		s += e.Lo.String()
	}
	s += ":"
	if e.Hi != nil {
		s += e.Hi.String()
	}
	return s + "]"
}
func (e *ECall) String() string {
	var a []string
	for _, x := range e.Args {
		a = append(a, x.String())
	}
	return e.Fn.String() + "(" + strings.Join(a, ", ") + ")"
}
func (e *EQuant) String() string {
	q := "exists"
	if e.Forall {
		q = "forall"
	}
	var vs []string
	for _, v := range e.Vars {
		vs = append(vs, v.Name+" "+v.Type)
	}
	return "(" + q + " " + strings.Join(vs, ", ") + " :: " + e.Body.String() + ")"
}
func (e *EOld) String() string { return "old(" + e.X.String() + ")" }
func (e *ECond) String() string {
	return "(" + e.C.String() + " ? " + e.A.String() + " : " + e.B.String() + ")"
}
func (e *ETypeLit) String() string { return "type(" + e.T + ")" }

type tok struct {
	kind string // id int str op eof
	text string
	pos  int
}

type lexer struct {
	src  string
	toks []tok
	p    int
}

func lex(src string) ([]tok, error) {
	var toks []tok
	i := 0
	for i < len(src) {
		c := src[i]
		switch {
		case c == ' ' || c == '\t' || c == '\n':
			i++
		case unicode.IsLetter(rune(c)) || c == '_' || c == '$':
			j := i
			for j < len(src) && (unicode.IsLetter(rune(src[j])) || unicode.IsDigit(rune(src[j])) || src[j] == '_' || src[j] == '$') {
				j++
			}
			toks = append(toks, tok{"id", src[i:j], i})
			i = j
		case unicode.IsDigit(rune(c)):
			j := i
			for j < len(src) && (unicode.IsDigit(rune(src[j])) || src[j] == 'x' || (src[j] >= 'a' && src[j] <= 'f') || (src[j] >= 'A' && src[j] <= 'F')) {
				j++
			}
			toks = append(toks, tok{"int", src[i:j], i})
			i = j
		case c == '"':
			j := i + 1
			var sb strings.Builder
			for j < len(src) && src[j] != '"' {
				if src[j] == '\\' && j+1 < len(src) {
					j++
					switch src[j] {
					case 'n':
						sb.WriteByte('\n')
					case 't':
						sb.WriteByte('\t')
					default:
						sb.WriteByte(src[j])
					}
				} else {
					sb.WriteByte(src[j])
				}
				j++
			}
			if j >= len(src) {
				return nil, fmt.Errorf("unterminated string at %d", i)
			}
			toks = append(toks, tok{"str", sb.String(), i})
			i = j + 1
		default:
			ops := []string{"<==>", "==>", "::", "==", "!=", "<=", ">=", "&&", "||", ".#", "<", ">", "+", "-", "*", "/", "%", "!", "(", ")", "[", "]", ",", ".", ":", "?", "{", "}", "&"}
			matched := false
			for _, op := range ops {
				if strings.HasPrefix(src[i:], op) {
					toks = append(toks, tok{"op", op, i})
					i += len(op)
					matched = true
					break
				}
			}
			if !matched {
				return nil, fmt.Errorf("unexpected character %q at %d in %q", c, i, src)
			}
		}
	}
	toks = append(toks, tok{"eof", "", len(src)})
	return toks, nil
}

type parser struct {
	src  string
	toks []tok
	p    int
}

func ParseExpr(src string) (e Expr, err error) {
	toks, err := lex(src)
	if err != nil {
		return nil, err
	}
	ps := &parser{src: src, toks: toks}
	defer func() {
		if r := recover(); r != nil {
			if pe, ok := r.(parseErr); ok {
				err = fmt.Errorf("%s in %q", string(pe), src)
				return
			}
			panic(r)
		}
	}()
	e = ps.expr()
	if ps.peek().kind != "eof" {
		ps.fail("unexpected %q", ps.peek().text)
	}
	return e, nil
}

type parseErr string

func (p *parser) fail(f string, a ...any) { panic(parseErr(fmt.Sprintf(f, a...))) }
func (p *parser) peek() tok               { return p.toks[p.p] }
func (p *parser) next() tok               { t := p.toks[p.p]; p.p++; return t }
func (p *parser) isOp(s string) bool      { t := p.peek(); return t.kind == "op" && t.text == s }
func (p *parser) isID(s string) bool      { t := p.peek(); return t.kind == "id" && t.text == s }
func (p *parser) expect(s string) {
	if !p.isOp(s) {
		p.fail("expected %q, got %q", s, p.peek().text)
	}
	p.next()
}

func (p *parser) expr() Expr {
	if p.isID("forall") || p.isID("exists") {
		return p.quant()
	}
	return p.iff()
}

func (p *parser) quant() Expr {
	q := &EQuant{Forall: p.next().text == "forall"}
	for {
		name := p.next()
		if name.kind != "id" {
			p.fail("quantifier: expected variable name, got %q", name.text)
		}
		typ := p.typeText()
		q.Vars = append(q.Vars, QVar{name.text, typ})
		if p.isOp(",") {
			p.next()
			continue
		}
		break
	}
	p.expect("::")
	// optional patterns { e, e }
	for p.isOp("{") {
		p.next()
		for {
			q.Pats = append(q.Pats, p.iff())
			if p.isOp(",") {
				p.next()
				continue
			}
			break
		}
		p.expect("}")
	}
	q.Body = p.expr()
	return q
}

// typeText consumes a type expression: [*] [[]]... ident[.ident]
func (p *parser) typeText() string {
	var sb strings.Builder
	for {
		if p.isOp("*") {
			p.next()
			sb.WriteString("*")
		} else if p.isOp("[") {
			p.next()
			p.expect("]")
			sb.WriteString("[]")
		} else {
			break
		}
	}
	t := p.next()
	if t.kind != "id" {
		p.fail("expected type name, got %q", t.text)
	}
	sb.WriteString(t.text)
	for p.isOp(".") || p.isOp("/") {
		sb.WriteString(p.next().text)
		t = p.next()
		sb.WriteString(t.text)
	}
	return sb.String()
}

func (p *parser) iff() Expr {
	l := p.impl()
	for p.isOp("<==>") {
		p.next()
		r := p.impl()
		l = &EBin{"<==>", l, r}
	}
	return l
}

func (p *parser) impl() Expr {
	l := p.cond()
	if p.isOp("==>") {
		p.next()
		var r Expr
		if p.isID("forall") || p.isID("exists") {
			r = p.quant()
		} else {
			r = p.impl()
		}
		return &EBin{"==>", l, r}
	}
	return l
}

func (p *parser) cond() Expr {
	c := p.or()
	if p.isOp("?") {
		p.next()
		a := p.cond()
		p.expect(":")
		b := p.cond()
		return &ECond{c, a, b}
	}
	return c
}

func (p *parser) or() Expr {
	l := p.and()
	for p.isOp("||") {
		p.next()
		l = &EBin{"||", l, p.and()}
	}
	return l
}

func (p *parser) and() Expr {
	l := p.cmp()
	for p.isOp("&&") {
		p.next()
		if p.isID("forall") || p.isID("exists") {
			return &EBin{"&&", l, p.quant()}
		}
		l = &EBin{"&&", l, p.cmp()}
	}
	return l
}

func isCmp(s string) bool {
	switch s {
	case "==", "!=", "<", "<=", ">", ">=":
		return true
	}
	return false
}

func (p *parser) cmp() Expr {
	l := p.add()
	var res Expr
	for p.peek().kind == "op" && isCmp(p.peek().text) {
		op := p.next().text
		r := p.add()
		c := &EBin{op, l, r}
		if res == nil {
			res = c
		} else {
			res = &EBin{"&&", res, c}
		}
		l = r // chaining a <= b < c
	}
	if res != nil {
		return res
	}
	return l
}

func (p *parser) add() Expr {
	l := p.mul()
	for p.isOp("+") || p.isOp("-") {
		op := p.next().text
		l = &EBin{op, l, p.mul()}
	}
	return l
}

func (p *parser) mul() Expr {
	l := p.unary()
	for p.isOp("*") || p.isOp("/") || p.isOp("%") {
		op := p.next().text
		l = &EBin{op, l, p.unary()}
	}
	return l
}

func (p *parser) unary() Expr {
	if p.isOp("!") {
		p.next()
		return &EUn{"!", p.unary()}
	}
	if p.isOp("-") {
		p.next()
		return &EUn{"-", p.unary()}
	}
	if p.isOp("*") {
		p.next()
		return &EUn{"*", p.unary()}
	}
	if p.isOp("&") {
		p.next()
		return &EUn{"&", p.unary()}
	}
	return p.postfix()
}

func (p *parser) postfix() Expr {
	e := p.primary()
	for {
		switch {
		case p.isOp("."):
			p.next()
			t := p.next()
			if t.kind != "id" && t.kind != "int" {
				p.fail("expected selector after '.', got %q", t.text)
			}
			e = &ESel{X: e, Name: t.text}
		case p.isOp(".#"):
			p.next()
			t := p.next()
			e = &ESel{X: e, Name: t.text, Ghost: true}
		case p.isOp("["):
			p.next()
			var lo, hi Expr
			if p.isOp(":") {
				p.next()
				if !p.isOp("]") {
					hi = p.expr()
				}
				p.expect("]")
				e = &ESlice{e, nil, hi}
				continue
			}
			lo = p.expr()
			if p.isOp(":") {
				p.next()
				if !p.isOp("]") {
					hi = p.expr()
				}
				p.expect("]")
				e = &ESlice{e, lo, hi}
				continue
			}
			p.expect("]")
			e = &EIndex{e, lo}
		case p.isOp("("):
			p.next()
			var args []Expr
			for !p.isOp(")") {
				args = append(args, p.expr())
				if p.isOp(",") {
					p.next()
				}
			}
			p.expect(")")
			e = &ECall{e, args}
		default:
			return e
		}
	}
}

func (p *parser) primary() Expr {
	t := p.next()
	switch t.kind {
	case "int":
		return &EInt{t.text}
	case "str":
		return &EStr{t.text}
	case "id":
		if t.text == "old" && p.isOp("(") {
			p.next()
			x := p.expr()
			p.expect(")")
			return &EOld{x}
		}
		if t.text == "type" && p.isOp("(") {
			p.next()
			ty := p.typeText()
			p.expect(")")
			return &ETypeLit{ty}
		}
		return &EIdent{t.text}
	case "op":
		if t.text == "(" {
			e := p.expr()
			p.expect(")")
			return e
		}
	}
	p.fail("unexpected %q", t.text)
	return nil
}
