package main

import (
	"go/types"
	"encoding/json"
	"flag"
	"fmt"
	"golang.org/x/tools/go/ssa"
	"os"
	"os/exec"
	"path/filepath"
	"sort"
	"strconv"
	"strings"
	"sync"
	"time"
)

var VerifDir = "/verif"

type KnownFinding struct {
	Property   string `json:"property"`
	Obligation string `json:"obligation"` // exact obligation name
	What       string `json:"what"`
	Status     string `json:"status"` // open | fixed
	Commit     string `json:"commit,omitempty"`
	Witness    string `json:"witness,omitempty"`
	Replay     string `json:"replay,omitempty"`
	Signature  string `json:"signature,omitempty"` // bounded stand-ins: text the failure output must contain to be this finding
}

func loadKnown() []KnownFinding {
	var out struct {
		Findings []KnownFinding `json:"findings"`
	}
	b, err := os.ReadFile(filepath.Join(VerifDir, "known_findings.json"))
	if err != nil {
		return nil
	}
	if err := json.Unmarshal(b, &out); err != nil {
		fmt.Fprintln(os.Stderr, "known_findings.json:", err)
		os.Exit(2)
	}
	return out.Findings
}

type oblRecord struct {
	Name    string            `json:"name"`
	Kind    string            `json:"kind"`
	Func    string            `json:"func"`
	Clause  string            `json:"clause,omitempty"`
	Pos     string            `json:"pos,omitempty"`
	Verdict string            `json:"verdict"`
	Status  string            `json:"status"` // discharged failed undecided known-finding vacuity-ok
	Solver  string            `json:"solver,omitempty"`
	TimeS   float64           `json:"time_s"`
	Raw     map[string]string `json:"solvers,omitempty"`
	Confirm string            `json:"confirmed_by,omitempty"`
	Claimed bool              `json:"claimed"`
}

func main() {
	if len(os.Args) < 2 {
		fmt.Fprintln(os.Stderr, "usage: govc check -property Cnn -tier quick|thorough | govc dump -func name | govc list")
		os.Exit(2)
	}
	switch os.Args[1] {
	case "check":
		os.Exit(cmdCheck(os.Args[2:]))
	case "dump":
		os.Exit(cmdDump(os.Args[2:]))
	case "list":
		os.Exit(cmdList(os.Args[2:]))
	case "canary":
		os.Exit(cmdCanary(os.Args[2:]))
	case "replay":
		os.Exit(cmdReplay(os.Args[2:]))
	default:
		fmt.Fprintln(os.Stderr, "unknown command", os.Args[1])
		os.Exit(2)
	}
}

func cmdList(args []string) int {
	P, err := Load(nil)
	if err != nil {
		fmt.Fprintln(os.Stderr, err)
		return 2
	}
	for _, n := range sortedKeys(P.Funcs) {
		fmt.Println(n)
	}
	return 0
}

func cmdDump(args []string) int {
	fs := flag.NewFlagSet("dump", flag.ExitOnError)
	fn := fs.String("func", "", "qualified function name")
	prop := fs.String("property", "", "property")
	obl := fs.String("obligation", "", "print the SMT script of the obligation whose name contains this")
	fs.Parse(args)
	P, err := Load(nil)
	if err != nil {
		fmt.Fprintln(os.Stderr, err)
		return 2
	}
	DB, err := LoadContracts(P, filepath.Join(VerifDir, "specs"))
	if err != nil {
		fmt.Fprintln(os.Stderr, err)
		return 2
	}
	f := P.Funcs[*fn]
	if f == nil {
		fmt.Fprintln(os.Stderr, "no such function")
		return 2
	}
	if *obl == "" {
		f.WriteTo(os.Stdout)
	}
	k := DB.Funcs[*fn]
	if k == nil {
		fmt.Println("no contract")
		return 0
	}
	rep := VerifyFunc(P, DB, f, k, *prop)
	for _, o := range rep.Obligations {
		if *obl != "" {
			if strings.Contains(o.Name, *obl) {
				fmt.Println(o.Script())
				return 0
			}
			continue
		}
		fmt.Println("OBLIGATION", o.Name, "::", o.Clause)
	}
	for _, w := range rep.Warnings {
		fmt.Println("WARN", w)
	}
	for _, c := range sortedKeys(rep.Callees) {
		fmt.Println("CALLEE", c, "=>", rep.Callees[c])
	}
	for _, c := range sortedKeys(rep.Unmodelled) {
		fmt.Println("UNMODELLED", c)
	}
	for _, w := range rep.Errors {
		fmt.Println("ERROR", w)
	}
	return 0
}

type boundedResult struct {
	Name   string  `json:"name"`
	What   string  `json:"what"`
	Bound  string  `json:"bound"`
	Passed bool    `json:"passed"`
	Output string  `json:"output"`
	Cmd    string  `json:"cmd"`
	TimeS  float64 `json:"time_s"`
}

type boundedSpec struct {
	Property      string `json:"property"`
	Name          string `json:"name"`
	File          string `json:"file"`
	PkgDir        string `json:"pkgdir"`
	Run           string `json:"run"`
	BoundQuick    string `json:"bound_quick"`
	BoundThorough string `json:"bound_thorough"`
	What          string `json:"what"`
}

// runBounded runs the bounded stand-ins of a property against the real code.
// They are labelled "bounded" in the evidence and never counted as discharged.
func runBounded(prop, tier string) []boundedResult {
	b, err := os.ReadFile(filepath.Join(VerifDir, "replay", "bounded.json"))
	if err != nil {
		return nil
	}
	var specs []boundedSpec
	if json.Unmarshal(b, &specs) != nil {
		return nil
	}
	var out []boundedResult
	for _, sp := range specs {
		if sp.Property != prop {
			continue
		}
		bound := sp.BoundQuick
		if tier == "thorough" && sp.BoundThorough != "" {
			bound = sp.BoundThorough
		}
		t0 := time.Now()
		os.Setenv("GOVC_BOUND", bound)
		o, failed, cmdline := runScenarioIn(replayScenario{File: sp.File, PkgDir: sp.PkgDir, Run: sp.Run}, "bounded")
		ran := strings.Contains(o, "ok  ") || strings.Contains(o, "--- FAIL") || strings.Contains(o, "PASS")
		out = append(out, boundedResult{Name: sp.Name, What: sp.What, Bound: bound, Passed: !failed && ran, Output: o, Cmd: cmdline, TimeS: time.Since(t0).Seconds()})
	}
	return out
}

type checkResult struct {
	unreachable []string
	bounded   []boundedResult
	records []oblRecord
	reports []*FuncReport
	funcs   []string
	errors  []string
	loadS   float64
	genS    float64
	solveS  float64
}

// runCheck verifies every function and lemma tagged with the property.
func runCheck(P *Program, DB *ContractDB, prop, tier string, only string) *checkResult {
	res := &checkResult{}
	t0 := time.Now()
	var obls []*Obligation
	for _, name := range sortedKeys(DB.Funcs) {
		k := DB.Funcs[name]
		if k.Kind != "func" || !k.hasProp(prop) || k.Trusted {
			continue
		}
		if only != "" && !strings.Contains(name, only) {
			continue
		}
		fn := P.Funcs[name]
		if fn == nil {
			res.errors = append(res.errors, fmt.Sprintf("contract-unresolved: no function %s (contract at %s:%d)", name, relRepo(k.File), k.Line))
			continue
		}
		var rep *FuncReport
		func() {
			defer func() {
				if r := recover(); r != nil {
					res.errors = append(res.errors, fmt.Sprintf("engine-error in %s: %v", name, r))
					if os.Getenv("GOVC_DEBUG") != "" {
						panic(r)
					}
				}
			}()
			rep = VerifyFunc(P, DB, fn, k, prop)
		}()
		if rep == nil {
			continue
		}
		res.reports = append(res.reports, rep)
		res.funcs = append(res.funcs, name)
		seenErr := map[string]bool{}
		for _, e := range rep.Errors {
			if !seenErr[e] {
				seenErr[e] = true
				res.errors = append(res.errors, "contract-unresolved: "+e)
			}
		}
		obls = append(obls, rep.Obligations...)
	}
	for _, lm := range DB.Lemmas {
		has := false
		for _, p := range lm.Props {
			if p == prop {
				has = true
			}
		}
		if !has || only != "" && !strings.Contains(lm.Name, only) {
			continue
		}
		rep := VerifyLemma(P, DB, lm, prop)
		res.reports = append(res.reports, rep)
		res.funcs = append(res.funcs, "lemma "+lm.Name)
		for _, e := range rep.Errors {
			res.errors = append(res.errors, "contract-unresolved: "+e)
		}
		obls = append(obls, rep.Obligations...)
	}
	hasProp := func(ps []string) bool {
		for _, p := range ps {
			if p == prop {
				return true
			}
		}
		return false
	}
	addRep := func(rep *FuncReport) {
		res.reports = append(res.reports, rep)
		res.funcs = append(res.funcs, rep.Func)
		for _, e := range rep.Errors {
			res.errors = append(res.errors, "contract-unresolved: "+e)
		}
		obls = append(obls, rep.Obligations...)
	}
	for _, name := range sortedKeys(DB.FuncAlias) {
		if hasProp(DB.FuncAliasProps[name]) && (only == "" || strings.Contains(name, only)) {
			addRep(VerifyFuncAlias(P, DB, name, DB.FuncAlias[name], prop))
		}
	}
	for _, en := range DB.Enums {
		if hasProp(en.Props) && (only == "" || strings.Contains(en.Spec, only)) {
			addRep(VerifyEnum(P, DB, en, prop))
		}
	}
	for _, cs := range DB.CallSites {
		if hasProp(cs.Props) && only == "" {
			// functions that contain such a call site but have no contract are verified
			// with an implicit empty contract: the callee's requires-clauses decide
			for _, fname := range callSiteOwners(P, cs) {
				saved := DB.Funcs[fname]
				if saved != nil && (saved.hasProp(prop) || saved.Kind != "func") {
					continue
				}
				k := &FuncContract{Kind: "func", Name: fname, Pkg: pkgOfQual(fname), Props: []string{prop}, Flags: map[string]bool{"implicit": true}, Loops: map[int]*LoopSpec{}, ModAll: true, HasMod: true}
				if saved != nil {
					// under contract for other properties only: verified here with an implicit
					// contract that keeps its preconditions; the callee's requires-clauses decide
					k.Requires, k.Params, k.Lets = saved.Requires, saved.Params, saved.Lets
					for f, v := range saved.Flags {
						k.Flags[f] = v
					}
					k.Loops = saved.Loops
				}
				callSiteImplicit[fname] = true
				DB.Funcs[fname] = k
				if saved != nil {
					defer func(n string, c *FuncContract) { DB.Funcs[n] = c }(fname, saved)
				}
				var rep *FuncReport
				func() {
					defer func() {
						if r := recover(); r != nil {
							res.errors = append(res.errors, fmt.Sprintf("engine-error in %s: %v", fname, r))
						}
					}()
					rep = VerifyFunc(P, DB, P.Funcs[fname], k, prop)
				}()
				if rep != nil {
					// what an implicit contract answers for: the preconditions of the listed
					// callees, preconditions tagged with this property, and vacuity
					var keep []*Obligation
					for _, o := range rep.Obligations {
						ok := o.Kind == "vacuity" && !o.Soft || o.Kind == "requires" && o.Tagged
						if o.Kind == "requires" && !ok {
							for c := range cs.Callees {
								if strings.Contains(o.Name, " "+c+"/requires[") {
									ok = true
								}
							}
						}
						if ok {
							keep = append(keep, o)
						}
					}
					rep.Obligations = keep
					rep.Func += " (implicit contract)"
					addRep(rep)
				}
			}
			addRep(VerifyCallSites(P, DB, cs, prop))
		}
	}
	// guarded fields: every module function that reads or writes one is verified
	// (with an implicit empty contract unless it has one for this property)
	// an implicit owner answers for the declarations whose field it touches itself;
	// accesses of other guarded fields inside inlined callees are answered for by
	// those callees, which are owners in their own right
	ownedDecls := map[string][]string{}
	for _, key := range sortedKeys(DB.Guarded) {
		gd := DB.Guarded[key]
		if !hasProp(gd.Props) {
			continue
		}
		for _, fname := range guardedOwners(P, gd) {
			ownedDecls[fname] = append(ownedDecls[fname], fmt.Sprintf("/guarded[%s.%s by %s]/", gd.Recv, gd.Field, gd.Mutex))
		}
	}
	for _, key := range sortedKeys(DB.Guarded) {
		gd := DB.Guarded[key]
		if !hasProp(gd.Props) {
			continue
		}
		for _, fname := range guardedOwners(P, gd) {
			if only != "" && !strings.Contains(fname, only) {
				continue
			}
			if k := DB.Funcs[fname]; k != nil {
				if k.hasProp(prop) {
					continue // verified through its own contract
				}
			}
			if verifiedImplicit[fname] {
				continue
			}
			verifiedImplicit[fname] = true
			saved := DB.Funcs[fname]
			k := &FuncContract{Kind: "func", Name: fname, Pkg: pkgOfQual(fname), Props: []string{prop}, Flags: map[string]bool{"implicit": true}, Loops: map[int]*LoopSpec{}, ModAll: true, HasMod: true}
			if saved != nil {
				// keep the preconditions of an existing contract (e.g. "caller holds the lock")
				k.Requires = saved.Requires
				k.Params = saved.Params
				k.Flags = map[string]bool{"implicit": true}
				for f, v := range saved.Flags {
					k.Flags[f] = v
				}
				k.Lets = saved.Lets
				k.Loops = saved.Loops // invariants are proved under their own property
			}
			DB.Funcs[fname] = k
			var rep *FuncReport
			func() {
				defer func() {
					if r := recover(); r != nil {
						res.errors = append(res.errors, fmt.Sprintf("engine-error in %s: %v", fname, r))
					}
				}()
				rep = VerifyFunc(P, DB, P.Funcs[fname], k, prop)
			}()
			if saved != nil {
				DB.Funcs[fname] = saved
			} else {
				delete(DB.Funcs, fname)
			}
			if rep != nil {
				// only the lock-discipline obligations count for an implicit contract
				var keep []*Obligation
				for _, o := range rep.Obligations {
					if o.Kind == "vacuity" && !o.Soft || o.Kind == "requires" && o.Tagged {
						keep = append(keep, o)
					}
					if o.Kind == "guarded" {
						own := false
						for _, d := range ownedDecls[fname] {
							if strings.Contains(o.Name, d) {
								own = true
								break
							}
						}
						// an access inside an inlined callee that is not a module
						// function in the owner list (a promoted-method wrapper)
						// has nobody else to answer for it
						if i := strings.LastIndex(o.Name, " in "); i >= 0 && !own {
							callee := o.Name[i+4:]
							if j := strings.LastIndex(callee, "#"); j >= 0 {
								callee = callee[:j]
							}
							if _, isMod := P.Funcs[callee]; !isMod {
								own = true
							}
						}
						if own {
							keep = append(keep, o)
						}
					}
				}
				rep.Obligations = keep
				rep.Func += " (implicit contract)"
				addRep(rep)
			}
		}
	}
	for _, name := range sortedKeys(DB.ZeroGlobals) {
		has := false
		for _, p := range DB.ZeroGlobals[name] {
			if p == prop {
				has = true
			}
		}
		if !has || only != "" && !strings.Contains(name, only) {
			continue
		}
		rep := VerifyZeroGlobal(P, DB, name, prop)
		res.reports = append(res.reports, rep)
		res.funcs = append(res.funcs, rep.Func)
		obls = append(obls, rep.Obligations...)
	}
	for _, name := range sortedKeys(DB.ConstGlobals) {
		has := false
		for _, p := range DB.ConstGlobals[name] {
			if p == prop {
				has = true
			}
		}
		if !has || only != "" && !strings.Contains(name, only) {
			continue
		}
		rep := VerifyConstGlobal(P, DB, name, prop)
		res.reports = append(res.reports, rep)
		res.funcs = append(res.funcs, rep.Func)
		obls = append(obls, rep.Obligations...)
	}
	for _, pd := range DB.PerCapture {
		has := false
		for _, p := range pd.Props {
			if p == prop {
				has = true
			}
		}
		if !has || only != "" && !strings.Contains(pd.Closure, only) {
			continue
		}
		rep := VerifyPerCapture(P, DB, pd, prop)
		res.reports = append(res.reports, rep)
		res.funcs = append(res.funcs, rep.Func)
		obls = append(obls, rep.Obligations...)
	}
	for _, nd := range DB.NoWholeStore {
		has := false
		for _, p := range nd.Props {
			if p == prop {
				has = true
			}
		}
		if !has || only != "" && !strings.Contains(nd.Type, only) {
			continue
		}
		rep := VerifyNoWholeStore(P, DB, nd, prop)
		res.reports = append(res.reports, rep)
		res.funcs = append(res.funcs, rep.Func)
		obls = append(obls, rep.Obligations...)
	}
	for _, wd := range DB.Writes {
		has := false
		for _, p := range wd.Props {
			if p == prop {
				has = true
			}
		}
		if !has || only != "" && !strings.Contains(wd.Field, only) {
			continue
		}
		rep := VerifyWrites(P, DB, wd, prop)
		res.reports = append(res.reports, rep)
		res.funcs = append(res.funcs, rep.Func)
		for _, e := range rep.Errors {
			res.errors = append(res.errors, "contract-unresolved: "+e)
		}
		obls = append(obls, rep.Obligations...)
	}
	for _, cd := range DB.Covers {
		has := false
		for _, p := range cd.Props {
			if p == prop {
				has = true
			}
		}
		if !has || only != "" && !strings.Contains(cd.Spec, only) {
			continue
		}
		rep := VerifyCover(P, DB, cd, prop)
		res.reports = append(res.reports, rep)
		res.funcs = append(res.funcs, "covers "+cd.Spec)
		for _, e := range rep.Errors {
			res.errors = append(res.errors, "contract-unresolved: "+e)
		}
		obls = append(obls, rep.Obligations...)
	}
	res.genS = time.Since(t0).Seconds()
	t1 := time.Now()
	timeout := 30
	if tier == "thorough" {
		timeout = 90
	}
	if v := os.Getenv("GOVC_TIMEOUT"); v != "" {
		timeout, _ = strconv.Atoi(v)
	}
	dir := filepath.Join(os.TempDir(), fmt.Sprintf("govc-%s-%d", prop, os.Getpid()))
	if d := os.Getenv("GOVC_KEEP"); d != "" {
		dir = d
	} else {
		defer os.RemoveAll(dir)
	}
	recs := make([]oblRecord, len(obls))
	var wg sync.WaitGroup
	sem := make(chan struct{}, 8)
	openKnown := map[string]bool{}
	for _, k := range loadKnown() {
		if k.Status == "open" {
			openKnown[k.Obligation] = true
		}
	}
	for i, o := range obls {
		wg.Add(1)
		go func(i int, o *Obligation) {
			defer wg.Done()
			sem <- struct{}{}
			defer func() { <-sem }()
			to := timeout
			if o.MustFail && to > 6 {
				to = 6 // vacuity probes are expected NOT to be refutable: do not wait for the full budget
			}
			var r SolverResult
			if o.MustFail {
				r = SolveProbe(o.Script(), dir, fmt.Sprintf("o%04d", i), 3)
			} else {
				// extra effort (default-config z3, case analysis) only where a verdict is
				// owed: claimed obligations that are not listed as open known findings
				deep := o.Claimed && !openKnown[o.Name]
				if !deep && to > 8 {
					to = 8
				}
							r = SolveOpt(o.Script(), dir, fmt.Sprintf("o%04d", i), to, tier == "thorough", deep)
				if r.Verdict == "unknown" && deep {
					// instantiation gave up on the merged paths: decide the same formula by
					// case analysis over the latest branch conditions (all cases must be unsat)
					if conds := o.SplitConds(3); len(conds) > 0 {
						all, used := true, map[string]bool{}
						t0 := time.Now()
						for m := 0; m < 1<<len(conds) && all; m++ {
							sc := o.Script()
							for j, c := range conds {
								if m>>j&1 == 1 {
									sc += "(assert " + c + ")\n"
								} else {
									sc += "(assert " + sNot(c) + ")\n"
								}
							}
							cr := Solve(sc, dir, fmt.Sprintf("o%04d.case%d", i, m), to, false)
							if cr.Verdict != "unsat" {
								all = false
							}
							used[cr.Solver] = true
						}
						if all {
							r.Verdict, r.Solver = "unsat", "case-split("+strings.Join(sortedKeys(used), ",")+")"
							r.Raw["case-split"] = fmt.Sprintf("%d cases over %d branch conditions, all unsat", 1<<len(conds), len(conds))
							r.TimeS += time.Since(t0).Seconds()
						}
					}
				}
			}
			o.Result = &r
			rec := oblRecord{Name: o.Name, Kind: o.Kind, Func: o.Func, Clause: o.Clause, Pos: o.Pos, Verdict: r.Verdict, Solver: r.Solver, TimeS: r.TimeS, Raw: r.Raw, Confirm: r.Confirm, Claimed: o.Claimed}
			switch {
			case o.MustFail:
				if r.Verdict == "unsat" && o.Soft {
					rec.Status = "unreachable-return"
				} else if r.Verdict == "unsat" {
					rec.Status = "vacuous"
				} else {
					rec.Status = "vacuity-ok"
				}
			case r.Verdict == "unsat":
				rec.Status = "discharged"
			case r.Verdict == "error":
				rec.Status = "solver-error"
			case !o.Claimed:
				rec.Status = "undecided"
			default:
				rec.Status = "failed"
			}
			recs[i] = rec
		}(i, o)
	}
	wg.Wait()
	res.records = recs
	res.solveS = time.Since(t1).Seconds()
	return res
}

func cmdCheck(args []string) int {
	fs := flag.NewFlagSet("check", flag.ExitOnError)
	prop := fs.String("property", "", "property id")
	tier := fs.String("tier", "quick", "quick|thorough")
	only := fs.String("only", "", "restrict to functions whose name contains this (debugging; evidence is not written)")
	verbose := fs.Bool("v", false, "print every obligation")
	fs.Parse(args)
	if *prop == "" {
		fmt.Fprintln(os.Stderr, "-property required")
		return 2
	}
	t0 := time.Now()
	P, err := Load(nil)
	if err != nil {
		fmt.Fprintln(os.Stderr, "load failed:", err)
		return 2
	}
	DB, err := LoadContracts(P, filepath.Join(VerifDir, "specs"))
	if err != nil {
		fmt.Fprintln(os.Stderr, "contracts:", err)
		return 2
	}
	loadS := time.Since(t0).Seconds()
	res := runCheck(P, DB, *prop, *tier, *only)
	res.loadS = loadS
	if *only == "" {
		res.bounded = runBounded(*prop, *tier)
	}
	rc := report(P, DB, res, *prop, *tier, *only == "", *verbose, time.Since(t0).Seconds())
	if *tier == "thorough" && *only == "" && rc == 0 {
		// must-fail corpus: every deliberate property-breaking edit has to be refuted,
		// every harmless edit accepted; otherwise the check itself is broken (exit 2)
		run, bad, lines := runCanaryCorpus(*prop, "quick", 6)
		for _, l := range lines {
			fmt.Println(l)
		}
		fmt.Printf("canaries: %d run, %d not detected/false alarm\n", run, bad)
		appendCanaryEvidence(*prop, run, bad, lines)
		if bad > 0 {
			fmt.Printf("BROKEN-CHECK: %d canaries of %s were not handled as expected\n", bad, *prop)
			return 2
		}
	}
	return rc
}

// appendCanaryEvidence records the must-fail corpus run in the evidence file.
func appendCanaryEvidence(prop string, run, bad int, lines []string) {
	path := filepath.Join(VerifDir, "evidence", prop+".json")
	b, err := os.ReadFile(path)
	if err != nil {
		return
	}
	var ev map[string]any
	if json.Unmarshal(b, &ev) != nil {
		return
	}
	cov, _ := ev["coverage"].(map[string]any)
	if cov == nil {
		return
	}
	cov["canaries_run"] = run
	cov["canaries_unexpected"] = bad
	cov["canary_results"] = lines
	out, _ := json.MarshalIndent(ev, "", " ")
	os.WriteFile(path, out, 0o644)
}

func runCanaryCorpus(prop, tier string, par int) (run, bad int, lines []string) {
	cs := loadCanaries(prop)
	type out struct {
		c   Canary
		txt string
		rc  int
	}
	results := make([]out, len(cs))
	var wg sync.WaitGroup
	sem := make(chan struct{}, par)
	for i, c := range cs {
		wg.Add(1)
		go func(i int, c Canary) {
			defer wg.Done()
			sem <- struct{}{}
			defer func() { <-sem }()
			cmd := exec.Command(os.Args[0], "canary", "-property", c.Property, "-id", c.ID, "-tier", tier)
			cmd.Env = os.Environ()
			b, err := cmd.CombinedOutput()
			rc := 0
			if err != nil {
				rc = 3
			}
			results[i] = out{c, string(b), rc}
		}(i, c)
	}
	wg.Wait()
	for _, r := range results {
		line := ""
		for _, l := range strings.Split(r.txt, "\n") {
			if strings.HasPrefix(l, "CANARY ") {
				line = l
			}
		}
		if line == "" {
			line = "CANARY " + r.c.ID + " " + r.c.Property + " error :: " + firstLines(r.txt, 3)
			bad++
		} else if r.rc != 0 {
			bad++
		}
		lines = append(lines, line)
	}
	return len(results), bad, lines
}

func report(P *Program, DB *ContractDB, res *checkResult, prop, tier string, writeEvidence, verbose bool, wall float64) int {
	known := loadKnown()
	isKnown := func(name string) *KnownFinding {
		for i := range known {
			if known[i].Property == prop && known[i].Obligation == name && known[i].Status == "open" {
				return &known[i]
			}
		}
		return nil
	}
	exit := 0
	var nObl, nDis, nFailed, nUndecided, nKnown, nVac int
	var solverTime float64
	var violations []string
	var samples []any
	replayDir := filepath.Join(VerifDir, "replays")
	if RepoDir != "/repo" {
		replayDir = filepath.Join(os.TempDir(), "govc-scratch-replays")
	}
	broken := false
	var unreachable []string
	for i := range res.records {
		r := &res.records[i]
		solverTime += r.TimeS
		if verbose {
			fmt.Printf("%-12s %-8s %6.2fs %s\n", r.Status, r.Solver, r.TimeS, r.Name)
		}
		switch r.Status {
		case "vacuity-ok":
			nVac++
		case "unreachable-return":
			fmt.Printf("VACUITY-WARN: %s is refutable: that return is dead under the assumed contracts\n", r.Name)
			unreachable = append(unreachable, r.Name)
			res.unreachable = unreachable
		case "vacuous":
			// a failed obligation is assumed afterwards, which can make later points
			// unreachable: only a function without failed obligations is vacuous
			hasFailed := false
			for j := range res.records {
				if res.records[j].Func == r.Func && res.records[j].Status == "failed" {
					hasFailed = true
				}
			}
			if !hasFailed {
				fmt.Printf("BROKEN-CHECK: %s is refutable: the precondition/axioms of %s are contradictory\n", r.Name, r.Func)
				broken = true
			}
		case "solver-error":
			fmt.Printf("BROKEN-CHECK: solver error on %s: %v\n", r.Name, r.Raw)
			broken = true
		case "discharged":
			nObl++
			nDis++
			if len(samples) < 12 {
				samples = append(samples, map[string]any{"obligation": r.Name, "clause": r.Clause, "solver": r.Solver, "time_s": r.TimeS})
			}
		case "undecided":
			nUndecided++
		case "failed":
			if kf := isKnown(r.Name); kf != nil {
				r.Status = "known-finding"
				nKnown++
				fmt.Printf("KNOWN-FINDING: property=%s %s [%s]\n", prop, kf.What, r.Name)
				continue
			}
			nObl++
			nFailed++
			path := writeReplay(replayDir, prop, r, res)
			suffix := " no-failing-input-found"
			if rp := runReplayFor(prop, r, path); rp != "" {
				suffix = rp
			}
			violations = append(violations, fmt.Sprintf("VIOLATION property=%s replay=%s obligation=%q verdict=%s%s", prop, path, r.Name, r.Verdict, suffix))
		}
	}
	for _, e := range res.errors {
		if strings.HasPrefix(e, "engine-error") {
			fmt.Println("BROKEN-CHECK:", e)
			broken = true
			continue
		}
		nObl++
		nFailed++
		r := &oblRecord{Name: prop + "/" + e, Kind: "contract", Verdict: "unresolved", Status: "failed"}
		path := writeReplay(replayDir, prop, r, res)
		violations = append(violations, fmt.Sprintf("VIOLATION property=%s replay=%s obligation=%q no-failing-input-found", prop, path, e))
	}
	for _, b := range res.bounded {
		if b.Passed {
			fmt.Printf("BOUNDED %s (bound %s): ok in %.1fs -- %s\n", b.Name, b.Bound, b.TimeS, lastLogLine(b.Output))
			continue
		}
		os.MkdirAll(replayDir, 0o755)
		path := filepath.Join(replayDir, prop+"_bounded_"+b.Name+".json")
		jb, _ := json.MarshalIndent(b, "", " ")
		os.WriteFile(path, jb, 0o644)
		if strings.Contains(b.Output, "--- FAIL") {
			if kf := isKnown(prop + "/bounded[" + b.Name + "]"); kf != nil && kf.Signature != "" && strings.Contains(b.Output, kf.Signature) {
				nKnown++
				fmt.Printf("KNOWN-FINDING: property=%s %s [%s]\n", prop, kf.What, prop+"/bounded["+b.Name+"]")
				continue
			}
			violations = append(violations, fmt.Sprintf("VIOLATION property=%s replay=%s obligation=%q bounded stand-in failed on the real code (bound %s)", prop, path, prop+"/bounded["+b.Name+"]", b.Bound))
		} else {
			fmt.Printf("BROKEN-CHECK: bounded stand-in %s did not run: %s\n", b.Name, firstLines(b.Output, 3))
			broken = true
		}
	}
	if len(res.records) == 0 && len(res.errors) == 0 {
		fmt.Printf("BROKEN-CHECK: no obligations generated for %s\n", prop)
		broken = true
	}
	for _, v := range violations {
		fmt.Println(v)
		exit = 1
	}
	if broken && exit == 0 {
		exit = 2
	}
	fmt.Printf("%s %s: %d functions/lemmas, %d obligations, %d discharged, %d failed, %d known findings, %d undecided(unclaimed), %d vacuity probes ok; load %.1fs gen %.1fs solve %.1fs\n",
		prop, tier, len(res.funcs), nObl, nDis, nFailed, nKnown, nUndecided, nVac, res.loadS, res.genS, res.solveS)
	if writeEvidence {
		writeEvidenceFile(P, DB, res, prop, tier, nObl, nDis, nFailed, nKnown, nUndecided, nVac, solverTime, samples, wall, len(violations))
	}
	return exit
}

func writeReplay(dir, prop string, r *oblRecord, res *checkResult) string {
	os.MkdirAll(dir, 0o755)
	name := strings.NewReplacer("/", "_", " ", "_", "(", "", ")", "", "*", "", "[", "-", "]", "", "#", "n", "\"", "", ":", "_").Replace(r.Name)
	if len(name) > 150 {
		name = name[:150]
	}
	path := filepath.Join(dir, name+".json")
	out := map[string]any{
		"property": prop, "obligation": r.Name, "function": r.Func, "clause": r.Clause, "position": r.Pos,
		"verdict": r.Verdict, "solvers": r.Raw, "kind": r.Kind,
	}
	// attach model / raw solver output if present
	for _, rep := range res.reports {
		for _, o := range rep.Obligations {
			if o.Name == r.Name && o.Result != nil {
				out["model"] = o.Result.Model
			}
		}
	}
	b, _ := json.MarshalIndent(out, "", " ")
	os.WriteFile(path, b, 0o644)
	return path
}

func writeEvidenceFile(P *Program, DB *ContractDB, res *checkResult, prop, tier string, nObl, nDis, nFailed, nKnown, nUndecided, nVac int, solverTime float64, samples []any, wall float64, nviol int) {
	assm := map[string]bool{}
	unmodelled := map[string]int{}
	callees := map[string]string{}
	var warnings []string
	smtBytes := 0
	for _, rep := range res.reports {
		for _, a := range rep.Assumptions {
			assm[a] = true
		}
		for k, v := range rep.Unmodelled {
			unmodelled[k] += v
		}
		for k, v := range rep.Callees {
			callees[k] = v
		}
		warnings = append(warnings, rep.Warnings...)
		smtBytes += rep.SMTBytes
	}
	var assumptions []string
	for a := range assm {
		assumptions = append(assumptions, a)
	}
	for k, v := range callees {
		if strings.HasPrefix(v, "contract(ext)") || strings.HasPrefix(v, "contract(iface)") || strings.HasPrefix(v, "contract(trusted") || strings.HasPrefix(v, "pure") || v == "model" || v == "havoc" {
			assumptions = append(assumptions, fmt.Sprintf("callee %s: %s", k, v))
		}
	}
	for k, v := range unmodelled {
		assumptions = append(assumptions, fmt.Sprintf("abstracted: %s (x%d)", k, v))
	}
	assumptions = append(assumptions, extraAssumptions(prop)...)
	sort.Strings(assumptions)
	seed, _ := strconv.Atoi(os.Getenv("VERIF_SEED"))
	var recs []oblRecord
	recs = append(recs, res.records...)
	ev := map[string]any{
		"property_id": prop,
		"tier":        tier,
		"seed":        seed,
		"level":       "proof",
		"wall_s":      wall,
		"violations":  nviol,
		"assumptions": assumptions,
		"coverage": map[string]any{
			"obligations":              nObl,
			"discharged":               nDis,
			"failed":                   nFailed,
			"known_findings":           nKnown,
			"undecided_unclaimed":      nUndecided,
			"vacuity_probes_ok":        nVac,
			"unreachable_returns":      res.unreachable,
			"checker_cmd":              fmt.Sprintf("/verif/bin/govc check -property %s -tier %s", prop, tier),
			"trusted_base":             []string{"go/packages + go/ssa (x/tools v0.29.0) SSA construction", "govc VC generator (this repository, /verif/engine)", "z3 5.1.0 (z3-new), z3 4.8.12, cvc5 1.0.3", "axioms and ext/iface contracts in /verif/specs and contracts_verif.go (listed under assumptions)"},
			"functions_under_contract": res.funcs,
			"solver_time_s":            solverTime,
			"smt_bytes":                smtBytes,
			"integers":                 "int/int64/uint64 are mathematical integers (no 64-bit overflow, assumption arith64-no-overflow) unless the function is flagged overflow-checked; narrower types wrap mod 2^k explicitly",
			"samples":                  samples,
			"obligation_records":       recs,
			"warnings":                 warnings,
			"load_s":                   res.loadS,
			"gen_s":                    res.genS,
			"solve_s":                  res.solveS,
		},
	}
	if RepoDir != "/repo" {
		return // developer run on a scratch tree (GOVC_REPO): evidence comes from /repo only
	}
	os.MkdirAll(filepath.Join(VerifDir, "evidence"), 0o755)
	b, _ := json.MarshalIndent(ev, "", " ")
	os.WriteFile(filepath.Join(VerifDir, "evidence", prop+".json"), b, 0o644)
}

func extraAssumptions(prop string) []string {
	b, err := os.ReadFile(filepath.Join(VerifDir, "specs", "assumptions.json"))
	if err != nil {
		return nil
	}
	var m map[string][]string
	if json.Unmarshal(b, &m) != nil {
		return nil
	}
	return append(m["*"], m[prop]...)
}

// extraOverlay: source files replaced in go test runs (canary mutants)
var extraOverlay = map[string]string{}

type replayScenario struct {
	Match  string `json:"match"`
	File   string `json:"file"`
	PkgDir string `json:"pkgdir"`
	Run    string `json:"run"`
	What   string `json:"what"`
	Race   bool   `json:"race,omitempty"` // run under the Go race detector
}

// runReplayFor runs the registered scenario of a failed obligation against the
// real code (go test -overlay: the test file and the QUIC stub are injected,
// nothing is written into /repo). Returns "" when no scenario is registered,
// otherwise the suffix for the VIOLATION line.
func runReplayFor(prop string, r *oblRecord, path string) string {
	b, err := os.ReadFile(filepath.Join(VerifDir, "replay", "scenarios.json"))
	if err != nil {
		return ""
	}
	var scs []replayScenario
	if json.Unmarshal(b, &scs) != nil {
		return ""
	}
	for _, sc := range scs {
		if !strings.HasPrefix(r.Name, sc.Match) && !(strings.HasPrefix(sc.Match, "*") && strings.Contains(r.Name, sc.Match[1:])) {
			continue
		}
		out, failed, cmdline := runScenario(sc)
		// append to the replay file
		var doc map[string]any
		if fb, err := os.ReadFile(path); err == nil {
			json.Unmarshal(fb, &doc)
		}
		if doc == nil {
			doc = map[string]any{}
		}
		doc["replay_scenario"] = sc.What
		doc["replay_test"] = filepath.Join(VerifDir, "replay", "scenarios", sc.File)
		doc["replay_cmd"] = cmdline
		doc["replay_output"] = out
		doc["replayed_on_real_code"] = failed
		nb, _ := json.MarshalIndent(doc, "", " ")
		os.WriteFile(path, nb, 0o644)
		if failed {
			return " replayed-on-real-code"
		}
		return " no-failing-input-found"
	}
	return ""
}

func runScenario(sc replayScenario) (output string, failed bool, cmdline string) {
	return runScenarioIn(sc, "scenarios")
}

func runScenarioIn(sc replayScenario, sub string) (output string, failed bool, cmdline string) {
	tmp, err := os.MkdirTemp("", "govc-replay-")
	if err != nil {
		return err.Error(), false, ""
	}
	defer os.RemoveAll(tmp)
	ov := map[string]map[string]string{"Replace": {
		filepath.Join(RepoDir, "quic", "quic.go"):                   filepath.Join(VerifDir, "replay", "quicstub", "quic.go"),
		filepath.Join(RepoDir, "quic", "inherit.go"):                filepath.Join(VerifDir, "replay", "quicstub", "inherit.go"),
		filepath.Join(RepoDir, sc.PkgDir, "zz_govc_replay_test.go"): filepath.Join(VerifDir, "replay", sub, sc.File),
	}}
	for k, v := range extraOverlay {
		ov["Replace"][k] = v
	}
	ob, _ := json.Marshal(ov)
	ovf := filepath.Join(tmp, "ov.json")
	os.WriteFile(ovf, ob, 0o644)
	args := []string{"test", "-overlay", ovf, "-vet=off", "-count=1", "-timeout", "600s", "-v", "-run", "^" + sc.Run + "$", "./" + sc.PkgDir}
	if sc.Race {
		args = append(args[:1], append([]string{"-race"}, args[1:]...)...)
	}
	cmd := exec.Command("go", args...)
	cmd.Dir = RepoDir
	cmd.Env = goEnv()
	b, err := cmd.CombinedOutput()
	out := string(b)
	// reproduced = the test ran and failed; a build error is a broken replay, not a reproduction
	// (decided on the whole output: a failing stand-in may print more than is kept)
	failed = err != nil && strings.Contains(out, "--- FAIL")
	if len(out) > 6000 {
		out = out[:6000] + "…"
	}
	if err != nil && !failed {
		out = "REPLAY-BROKEN (did not build or run):\n" + out
	}
	return out, failed, "cd /repo && go " + strings.Join(args, " ")
}

// ---------------------------------------------------------------------------
// Must-fail corpus

type canaryEdit struct {
	File string `json:"file"`
	Old  string `json:"old"`
	New  string `json:"new"`
}

type Canary struct {
	ID       string       `json:"id"`
	Property string       `json:"property"`
	Edits    []canaryEdit `json:"edits"`
	Expect   string       `json:"expect"`   // substring of the obligation that must fail
	Harmless bool         `json:"harmless"` // harmless edit: nothing may fail
	Note     string       `json:"note"`
}

func loadCanaries(prop string) []Canary {
	files, _ := filepath.Glob(filepath.Join(VerifDir, "canaries", "*.json"))
	sort.Strings(files)
	var out []Canary
	for _, f := range files {
		b, err := os.ReadFile(f)
		if err != nil {
			continue
		}
		var cs []Canary
		if err := json.Unmarshal(b, &cs); err != nil {
			fmt.Fprintf(os.Stderr, "%s: %v\n", f, err)
			os.Exit(2)
		}
		for _, c := range cs {
			if prop == "" || c.Property == prop {
				out = append(out, c)
			}
		}
	}
	return out
}

// runCanary applies the edits through an in-memory overlay and reports whether
// the expected obligation failed.
func runCanary(c Canary, tier string) (status string, detail string) {
	overlay := map[string][]byte{}
	for _, e := range c.Edits {
		path := filepath.Join(RepoDir, e.File)
		cur, ok := overlay[path]
		if !ok {
			b, err := os.ReadFile(path)
			if err != nil {
				return "skipped", "cannot read " + e.File
			}
			cur = b
		}
		if strings.Count(string(cur), e.Old) != 1 {
			return "skipped", fmt.Sprintf("edit does not apply uniquely to %s", e.File)
		}
		overlay[path] = []byte(strings.Replace(string(cur), e.Old, e.New, 1))
	}
	P, err := Load(overlay)
	if err != nil {
		return "skipped", "mutant does not compile: " + firstLines(err.Error(), 2)
	}
	DB, err := LoadContracts(P, filepath.Join(VerifDir, "specs"))
	if err != nil {
		return "error", err.Error()
	}
	res := runCheck(P, DB, c.Property, tier, "")
	known := loadKnown()
	var failed []string
	for _, r := range res.records {
		if r.Status == "failed" {
			isK := false
			for _, k := range known {
				if k.Property == c.Property && k.Obligation == r.Name && k.Status == "open" {
					isK = true
				}
			}
			if !isK {
				failed = append(failed, r.Name)
			}
		}
	}
	for _, e := range res.errors {
		failed = append(failed, e)
	}
	// bounded stand-ins run the mutant through a go-test overlay
	if hasBounded(c.Property) {
		tmp, err := os.MkdirTemp("", "govc-canary-")
		if err == nil {
			defer os.RemoveAll(tmp)
			i := 0
			for path, content := range overlay {
				f := filepath.Join(tmp, fmt.Sprintf("m%d.go", i))
				i++
				os.WriteFile(f, content, 0o644)
				extraOverlay[path] = f
			}
			for _, b := range runBounded(c.Property, tier) {
				if !b.Passed {
					nm := c.Property + "/bounded[" + b.Name + "]"
					isK := false
					for _, k := range known {
						if k.Property == c.Property && k.Obligation == nm && k.Status == "open" && k.Signature != "" && strings.Contains(b.Output, k.Signature) {
							isK = true
						}
					}
					if !isK {
						failed = append(failed, nm)
					}
				}
			}
			extraOverlay = map[string]string{}
		}
	}
	if c.Harmless {
		if len(failed) == 0 {
			return "ok", "harmless edit raised no alarm"
		}
		return "false-alarm", strings.Join(failed, "; ")
	}
	for _, f := range failed {
		if strings.Contains(f, c.Expect) {
			return "detected", f
		}
	}
	if len(failed) > 0 {
		return "detected-elsewhere", strings.Join(failed, "; ")
	}
	return "missed", "no obligation failed"
}

func cmdCanary(args []string) int {
	fs := flag.NewFlagSet("canary", flag.ExitOnError)
	prop := fs.String("property", "", "property id (empty = all)")
	id := fs.String("id", "", "run a single canary (in-process)")
	tier := fs.String("tier", "quick", "tier")
	par := fs.Int("j", 5, "parallel canaries")
	fs.Parse(args)
	cs := loadCanaries(*prop)
	if *id != "" {
		for _, c := range cs {
			if c.ID == *id {
				st, d := runCanary(c, *tier)
				fmt.Printf("CANARY %s %s %s :: %s\n", c.ID, c.Property, st, d)
				if st == "detected" || st == "ok" || st == "skipped" || st == "detected-elsewhere" {
					return 0
				}
				return 3
			}
		}
		fmt.Fprintln(os.Stderr, "no such canary")
		return 2
	}
	_ = cs
	run, bad, lines := runCanaryCorpus(*prop, *tier, *par)
	for _, l := range lines {
		fmt.Println(l)
	}
	fmt.Printf("canaries: %d run, %d not detected/false alarm\n", run, bad)
	if bad > 0 {
		return 2
	}
	return 0
}

// cmdReplay runs registered replay scenarios against the real code:
// govc replay [-match substring]. Exit 1 if any scenario FAILS (= the defect reproduces).
func cmdReplay(args []string) int {
	fs := flag.NewFlagSet("replay", flag.ExitOnError)
	match := fs.String("match", "", "substring of the obligation or file name")
	fs.Parse(args)
	b, err := os.ReadFile(filepath.Join(VerifDir, "replay", "scenarios.json"))
	if err != nil {
		fmt.Fprintln(os.Stderr, err)
		return 2
	}
	var scs []replayScenario
	if err := json.Unmarshal(b, &scs); err != nil {
		fmt.Fprintln(os.Stderr, err)
		return 2
	}
	rc := 0
	for _, sc := range scs {
		if *match != "" && !strings.Contains(sc.Match, *match) && !strings.Contains(sc.File, *match) {
			continue
		}
		out, failed, cmdline := runScenario(sc)
		st := "passes (defect not reproduced)"
		if failed {
			st = "FAILS (defect reproduced on the real code)"
			rc = 1
		}
		fmt.Printf("REPLAY %s: %s\n  %s\n", sc.File, st, cmdline)
		if failed {
			fmt.Println(out)
		}
	}
	return rc
}

var verifiedImplicit = map[string]bool{}
var callSiteImplicit = map[string]bool{}

// guardedOwners: module functions with a load or store through the address of the guarded field.
func guardedOwners(P *Program, gd *GuardedDecl) []string {
	var out []string
	for _, fname := range sortedKeys(P.Funcs) {
		fn := P.Funcs[fname]
		if fn.Name() == "init" {
			continue
		}
		found := false
		for _, b := range fn.Blocks {
			for _, in := range b.Instrs {
				fa, ok := in.(*ssa.FieldAddr)
				if !ok {
					continue
				}
				T := fa.X.Type().Underlying().(*types.Pointer).Elem()
				sT, ok := structOf(T)
				if !ok || typeKey(T) != gd.Recv || sT.Field(fa.Field).Name() != gd.Field {
					continue
				}
				if fa.Referrers() == nil {
					continue
				}
				for _, r := range *fa.Referrers() {
					switch u := r.(type) {
					case *ssa.Store:
						if u.Addr == fa {
							found = true
						}
					case *ssa.UnOp:
						if u.X == fa {
							found = true
						}
					}
				}
			}
		}
		if found && !gd.Except[fname] {
			// a closure that its parent runs itself (called or deferred in place) is
			// checked inlined in the parent, where the lock context is known
			for fn.Parent() != nil && runInPlace(fn) {
				fn = fn.Parent()
			}
			out = append(out, QualName(fn))
		}
	}
	sort.Strings(out)
	var ded []string
	for i, f := range out {
		if i == 0 || out[i-1] != f {
			ded = append(ded, f)
		}
	}
	return ded
}

// runInPlace: every use of the closure fn in its parent is as the callee of a
// plain call or a defer (never `go`, never passed on or stored).
func runInPlace(fn *ssa.Function) bool {
	par := fn.Parent()
	uses := 0
	for _, b := range par.Blocks {
		for _, in := range b.Instrs {
			mc, ok := in.(*ssa.MakeClosure)
			var refs []ssa.Instruction
			if ok && mc.Fn == fn {
				if mc.Referrers() != nil {
					refs = *mc.Referrers()
				}
				for _, r := range refs {
					switch u := r.(type) {
					case *ssa.Defer:
						if u.Call.Value != mc {
							return false
						}
					case *ssa.Call:
						if u.Call.Value != mc {
							return false
						}
					case *ssa.DebugRef:
					default:
						return false
					}
					uses++
				}
				continue
			}
			if ci, ok := in.(ssa.CallInstruction); ok && ci.Common().Value == ssa.Value(fn) {
				if _, isGo := in.(*ssa.Go); isGo {
					return false
				}
				uses++
			}
		}
	}
	return uses > 0
}

func callSiteOwners(P *Program, cs *CallSitesDecl) []string {
	var out []string
	for _, fname := range sortedKeys(P.Funcs) {
		fn := P.Funcs[fname]
		found := false
		for _, b := range fn.Blocks {
			for _, in := range b.Instrs {
				if ci, ok := in.(ssa.CallInstruction); ok {
					if callee := ci.Common().StaticCallee(); callee != nil && cs.Callees[calleeName(callee)] {
						found = true
					}
				}
			}
		}
		if found {
			// a closure its parent calls or defers in place is checked inlined in the
			// parent (on the normal and on the panicking path)
			for fn.Parent() != nil && runInPlace(fn) {
				fn = fn.Parent()
			}
			out = append(out, QualName(fn))
		}
	}
	sort.Strings(out)
	var ded []string
	for i, f := range out {
		if i == 0 || out[i-1] != f {
			ded = append(ded, f)
		}
	}
	return ded
}

func pkgOfQual(q string) string {
	// "plugin/proxy.(*proxy).call" -> "plugin/proxy"; "erpc.NewPeer" -> "erpc"
	i := strings.Index(q, ".(")
	if i < 0 {
		i = strings.LastIndex(q, ".")
		if j := strings.Index(q, "$"); j >= 0 {
			i = strings.LastIndex(q[:j], ".")
		}
	}
	if i < 0 {
		return q
	}
	return q[:i]
}

func lastLogLine(out string) string {
	for _, l := range strings.Split(out, "\n") {
		if strings.Contains(l, "BOUNDED ") {
			return strings.TrimSpace(l)
		}
	}
	return ""
}

func hasBounded(prop string) bool {
	b, err := os.ReadFile(filepath.Join(VerifDir, "replay", "bounded.json"))
	if err != nil {
		return false
	}
	var specs []boundedSpec
	if json.Unmarshal(b, &specs) != nil {
		return false
	}
	for _, sp := range specs {
		if sp.Property == prop {
			return true
		}
	}
	return false
}
