package main

import (
	"fmt"
	"go/types"
	"os"
	"sort"
	"strings"

	"golang.org/x/tools/go/ssa"
)

// ---------------------------------------------------------------------------
// Callee resolution

type callee struct {
	fn      *ssa.Function // static/devirtualised/closure target (may lack a body)
	name    string        // qualified name (contract key)
	clo     *closureVal
	dynamic bool   // unresolved dynamic call
	iface   string // interface method key "pkg.Iface.Method" for invoke-mode calls
	recv    ssa.Value
}

func fullName(fn *ssa.Function) string {
	// contract key for non-module functions: types-style full name
	if fn.Object() != nil {
		if f, ok := fn.Object().(*types.Func); ok {
			return f.FullName()
		}
	}
	return fn.String()
}

func (fr *Frame) resolve(c *ssa.CallCommon) callee {
	vc := fr.vc
	if c.IsInvoke() {
		it := c.Value.Type()
		key := typeKey(it) + "." + c.Method.Name()
		// sealed interfaces devirtualise
		if conc, ok := vc.DB.Sealed[typeKey(it)]; ok {
			if fn := vc.P.lookupMethod(conc, c.Method.Name()); fn != nil {
				return callee{fn: fn, name: QualName(fn), recv: c.Value, iface: key}
			}
		}
		// embedded interface: method may belong to a sealed embedded interface
		if nt, ok := it.(*types.Named); ok {
			if ifc, ok := nt.Underlying().(*types.Interface); ok {
				for i := 0; i < ifc.NumEmbeddeds(); i++ {
					et := ifc.EmbeddedType(i)
					if conc, ok := vc.DB.Sealed[typeKey(et)]; ok {
						if fn := vc.P.lookupMethod(conc, c.Method.Name()); fn != nil {
							return callee{fn: fn, name: QualName(fn), recv: c.Value, iface: key}
						}
					}
				}
			}
		}
		return callee{dynamic: true, iface: key, name: key, recv: c.Value}
	}
	if fn := c.StaticCallee(); fn != nil {
		if mc, ok := c.Value.(*ssa.MakeClosure); ok {
			return callee{fn: fn, name: QualName(fn), clo: &closureVal{fn: fn, bindings: mc.Bindings, frame: fr}}
		}
		return callee{fn: fn, name: calleeName(fn)}
	}
	fr.val(c.Value)
	if cl := fr.clos[c.Value]; cl != nil {
		return callee{fn: cl.fn, name: calleeName(cl.fn), clo: cl}
	}
	return callee{dynamic: true, name: "dynamic:" + typeKey(c.Value.Type())}
}

func calleeName(fn *ssa.Function) string {
	if fn.Pkg != nil && inModule(fn.Pkg.Pkg) || fn.Parent() != nil {
		return QualName(fn)
	}
	if fn.Object() != nil && inModule(fn.Object().Pkg()) {
		return QualName(fn)
	}
	return fullName(fn)
}

// lookupMethod finds method `name` on concrete type text like "*socket.message".
func (P *Program) lookupMethod(conc, name string) *ssa.Function {
	ptr := strings.HasPrefix(conc, "*")
	tn := strings.TrimPrefix(conc, "*")
	i := strings.LastIndex(tn, ".")
	if i < 0 {
		return nil
	}
	pkgShort, typ := tn[:i], tn[i+1:]
	for path, sp := range P.SSA {
		if shortPkg(path) != pkgShort {
			continue
		}
		obj := sp.Pkg.Scope().Lookup(typ)
		if obj == nil {
			continue
		}
		var T types.Type = obj.Type()
		if ptr {
			T = types.NewPointer(T)
		}
		sel := P.Prog.MethodSets.MethodSet(T).Lookup(sp.Pkg, name)
		if sel == nil {
			sel = P.Prog.MethodSets.MethodSet(T).Lookup(nil, name)
		}
		if sel != nil {
			return P.Prog.MethodValue(sel)
		}
	}
	return nil
}

// ---------------------------------------------------------------------------
// Calls

func (fr *Frame) argTerms(c *ssa.CallCommon) []string {
	var out []string
	if c.IsInvoke() {
		out = append(out, fr.val(c.Value))
	}
	for _, a := range c.Args {
		out = append(out, fr.val(a))
	}
	return out
}

func (fr *Frame) call(site ssa.Instruction, c *ssa.CallCommon, st *State, reach *string) []string {
	vc := fr.vc
	if b, ok := c.Value.(*ssa.Builtin); ok {
		return fr.builtin(site, b, c, st, *reach)
	}
	ce := fr.resolve(c)
	sig := c.Signature()
	// 1. built-in library models
	if res, ok := fr.model(site, ce, c, st, reach); ok {
		vc.CalleesUsed[ce.name] = "model"
		return res
	}
	// 2. contracts (a contract may be scoped to the calling function: "name in caller")
	if k := vc.DB.Funcs[ce.name+" in "+QualName(fr.fn)]; k != nil {
		vc.CalleesUsed[ce.name] = "contract(" + k.Kind + ", scoped)"
		return fr.applyContract(site, k, ce, c, st, reach)
	}
	if k := vc.DB.Funcs[ce.name]; k != nil && !(k == fr.spec && false) {
		vc.CalleesUsed[ce.name] = "contract(" + k.Kind + ")"
		if k.Trusted {
			vc.CalleesUsed[ce.name] = "contract(trusted, body not verified)"
		}
		return fr.applyContract(site, k, ce, c, st, reach)
	}
	if ce.iface != "" {
		if k := vc.DB.Funcs[ce.iface]; k != nil {
			vc.CalleesUsed[ce.iface] = "contract(iface)"
			return fr.applyContract(site, k, ce, c, st, reach)
		}
	}
	// 3. declared pure
	if vc.DB.Pure[ce.name] || purePkgCall(ce) {
		vc.CalleesUsed[ce.name] = "pure(assumed)"
		return fr.freshResults(sig, st, *reach, ce.name, fr.argTerms(c))
	}
	// 3b. library package declared libframe
	if pk := calleePkgPath(ce, c); pk != "" && vc.DB.LibFrame[pk] {
		vc.CalleesUsed[ce.name] = "libframe(assumed: no effect on module-private state)"
		fr.escapeArgs(c, st)
		allocPre := vc.look(st, "$alloc")
		vc.havocLib(st)
		res := fr.freshResults(sig, st, *reach, "", nil)
		fr.noAliasResults(sig, res, st, *reach, allocPre)
		return res
	}
	// 4. inline
	if ce.fn != nil && len(ce.fn.Blocks) > 0 && fr.canInline(ce.fn) {
		vc.CalleesUsed[ce.name] = "inlined"
		if res, ok := fr.inline(ce, c, st, reach); ok {
			if v, isv := site.(*ssa.Call); isv && len(fr.lastExitClos) == 1 && fr.lastExitClos[0] != nil {
				fr.clos[v] = fr.lastExitClos[0]
			}
			fr.lastExitClos = nil
			return res
		}
	}
	// 5. summary (module function with a body: may-modify set) or havoc
	if ce.fn != nil && len(ce.fn.Blocks) > 0 {
		mods, all := vc.modsOfFunc(ce.fn, fr)
		if !all {
			vc.CalleesUsed[ce.name] = "summary(may-modify)"
			if vc.modSummary(ce.fn, 0).lib {
				vc.havocLib(st)
			}
			for _, m := range mods {
				if _, ok := vc.hsort[m]; ok {
					vc.havocVar(st, m)
				}
			}
			vc.havocVar(st, "$alloc")
			return fr.freshResults(sig, st, *reach, "", nil)
		}
	}
	vc.CalleesUsed[ce.name] = "havoc"
	vc.Unmodelled["call without contract (heap havocked): "+ce.name]++
	fr.havocCaptured(c, st)
	vc.havocAll(st, *reach)
	return fr.freshResults(sig, st, *reach, "", nil)
}

func purePkgCall(ce callee) bool {
	if ce.fn == nil {
		return false
	}
	var pkg *types.Package
	if ce.fn.Object() != nil {
		pkg = ce.fn.Object().Pkg()
	}
	if pkg == nil {
		return false
	}
	switch pkg.Path() {
	case "errors", "strconv", "strings", "math", "unicode", "unicode/utf8", "time", "path", "encoding/hex", "math/bits":
		return true
	case "fmt":
		n := ce.fn.Name()
		return n == "Errorf" || n == "Sprintf" || n == "Sprint" || n == "Sprintln"
	case "bytes":
		switch ce.fn.Name() {
		case "Equal", "IndexByte", "Index", "HasPrefix", "HasSuffix", "Compare", "Contains":
			return true
		}
	}
	return false
}

// havocCaptured: closures passed to unknown code may write their captured cells.
func (fr *Frame) havocCaptured(c *ssa.CallCommon, st *State) {}

func (fr *Frame) freshResults(sig *types.Signature, st *State, reach string, pureFn string, args []string) []string {
	vc := fr.vc
	var out []string
	for i := 0; i < sig.Results().Len(); i++ {
		t := sig.Results().At(i).Type()
		var v string
		if pureFn != "" && !strings.Contains(pureFn, "time.Now") {
			// deterministic function of its arguments (uninterpreted)
			var sorts []string
			ok := true
			for _, a := range args {
				s := vc.sortOfTerm(a)
				if s == "" {
					ok = false
				}
				sorts = append(sorts, s)
			}
			if ok {
				fn := sym(fmt.Sprintf("pure!%s!%d", pureFn, i))
				if vc.declared[fn] || true {
					vc.declareFunSig(fn, sorts, vc.sortOf(t))
				}
				if vc.funSigOK(fn, sorts) {
					v = vc.def("r", vc.sortOf(t), sApp(fn, args...))
				}
			}
		}
		if v == "" {
			v = vc.fresh("r", vc.sortOf(t))
		}
		vc.assume(reach, vc.rangeFact(v, t))
		vc.assume(reach, fr.allocFact(st, v, t))
		out = append(out, v)
	}
	return out
}

var funSigs = map[*VC]map[string][]string{}

func (vc *VC) declareFunSig(fn string, sorts []string, ret string) {
	m := funSigs[vc]
	if m == nil {
		m = map[string][]string{}
		funSigs[vc] = m
	}
	if _, ok := m[fn]; ok {
		return
	}
	m[fn] = append([]string{ret}, sorts...)
	vc.declareFun(fn, sorts, ret)
}

func (vc *VC) funSigOK(fn string, sorts []string) bool {
	sig := funSigs[vc][fn]
	if len(sig) != len(sorts)+1 {
		return false
	}
	for i, s := range sorts {
		if sig[i+1] != s {
			return false
		}
	}
	return true
}

// sortOfTerm guesses the sort of a term we built (used only for pure-function abstraction).
func (vc *VC) sortOfTerm(t string) string {
	switch {
	case t == "true" || t == "false":
		return "Bool"
	case strings.HasPrefix(t, "(mk_slice") || strings.HasPrefix(t, "(unbox_slice"):
		return "Slice"
	case strings.HasPrefix(t, "(mk_iface"):
		return "Iface"
	}
	if isAtom(t) {
		if s, ok := vc.symSort(t); ok {
			return s
		}
		if len(t) > 0 && (t[0] >= '0' && t[0] <= '9') {
			return "Int"
		}
		return ""
	}
	if strings.HasPrefix(t, "(- ") || strings.HasPrefix(t, "(+ ") {
		return "Int"
	}
	return ""
}

func (vc *VC) symSort(name string) (string, bool) {
	// scan declarations (cached)
	if vc.symSorts == nil {
		vc.symSorts = map[string]string{}
	}
	for vc.symScan < len(vc.lines) {
		l := vc.lines[vc.symScan]
		vc.symScan++
		if strings.HasPrefix(l, "(declare-const ") {
			f := strings.SplitN(strings.TrimSuffix(strings.TrimPrefix(l, "(declare-const "), ")"), " ", 2)
			if len(f) == 2 {
				vc.symSorts[f[0]] = f[1]
			}
		} else if strings.HasPrefix(l, "(define-fun ") {
			rest := strings.TrimPrefix(l, "(define-fun ")
			i := strings.Index(rest, " () ")
			if i > 0 {
				name := rest[:i]
				tail := rest[i+4:]
				var sort string
				if strings.HasPrefix(tail, "(") {
					j := matchParen(tail, 0)
					sort = tail[:j+1]
				} else {
					sort = strings.SplitN(tail, " ", 2)[0]
				}
				vc.symSorts[name] = sort
			}
		}
	}
	s, ok := vc.symSorts[name]
	return s, ok
}

// ---------------------------------------------------------------------------
// Inlining

const maxInlineDepth = 5
const maxInlineInstrs = 220

func (fr *Frame) canInline(fn *ssa.Function) bool {
	if fr.depth >= maxInlineDepth || fn.Recover != nil {
		return false
	}
	n := 0
	for _, b := range fn.Blocks {
		n += len(b.Instrs)
	}
	if n > maxInlineInstrs {
		return false
	}
	if hasLoops(fn) {
		return false
	}
	for f := fr; f != nil; f = f.parent {
		if f.fn == fn {
			return false
		}
	}
	return true
}

func (fr *Frame) inline(ce callee, c *ssa.CallCommon, st *State, reach *string) ([]string, bool) {
	vc := fr.vc
	sub := vc.newFrame(ce.fn, fr)
	args := c.Args
	var argVals []ssa.Value
	if c.IsInvoke() {
		argVals = append(argVals, nil) // receiver from interface
	}
	argVals = append(argVals, args...)
	for i, p := range ce.fn.Params {
		if i >= len(argVals) {
			break
		}
		if argVals[i] == nil {
			// receiver unboxed from the interface value
			sub.vals[p] = vc.def(sub.name(p), vc.sortOf(p.Type()), vc.unbox(fmt.Sprintf("(i_val %s)", fr.val(ce.recv)), p.Type()))
			continue
		}
		sub.vals[p] = fr.val(argVals[i])
		if a := fr.addrOf(argVals[i]); a != nil {
			sub.addrs[p] = a
		}
		if cl := fr.clos[argVals[i]]; cl != nil {
			sub.clos[p] = cl
		}
	}
	if ce.clo != nil {
		for i, fv := range ce.fn.FreeVars {
			if i < len(ce.clo.bindings) {
				b := ce.clo.bindings[i]
				bf := ce.clo.frame
				sub.vals[fv] = bf.val(b)
				if a := bf.addrOf(b); a != nil {
					sub.addrs[fv] = a
				}
				if cl := bf.clos[b]; cl != nil {
					sub.clos[fv] = cl
				}
			}
		}
	}
	ex := sub.run(*reach, st)
	// panics inside the inlined body propagate to the caller
	fr.panics = append(fr.panics, sub.panics...)
	if ex == nil {
		// never returns
		vc.assume(*reach, "false")
		return fr.freshResults(c.Signature(), st, *reach, "", nil), true
	}
	*st = *ex.st
	*reach = ex.reach
	fr.lastExitClos = ex.clos
	return ex.vals, true
}

// ---------------------------------------------------------------------------
// Contracts at call sites

func (fr *Frame) calleeParams(k *FuncContract, ce callee, c *ssa.CallCommon) (names []string, typs []types.Type) {
	sig := c.Signature()
	if ce.fn != nil && len(ce.fn.Params) > 0 && len(k.Params) == 0 {
		for _, p := range ce.fn.Params {
			names = append(names, p.Name())
			typs = append(typs, p.Type())
		}
		return
	}
	if c.IsInvoke() || sig.Recv() != nil {
		n := "self"
		var t types.Type
		if c.IsInvoke() {
			t = c.Value.Type()
		} else {
			t = sig.Recv().Type()
			if sig.Recv().Name() != "" && sig.Recv().Name() != "_" {
				n = sig.Recv().Name()
			}
		}
		names = append(names, n)
		typs = append(typs, t)
	}
	for i := 0; i < sig.Params().Len(); i++ {
		p := sig.Params().At(i)
		n := p.Name()
		if n == "" || n == "_" {
			n = fmt.Sprintf("p%d", i)
		}
		names = append(names, n)
		typs = append(typs, p.Type())
	}
	if len(k.Params) > 0 {
		for i := range names {
			if i < len(k.Params) {
				names[i] = k.Params[i]
			}
		}
	}
	return
}

func (fr *Frame) applyContract(site ssa.Instruction, k *FuncContract, ce callee, c *ssa.CallCommon, st *State, reach *string) []string {
	vc := fr.vc
	names, typs := fr.calleeParams(k, ce, c)
	args := fr.argTerms(c)
	// receivers of devirtualised invoke calls are unboxed
	if c.IsInvoke() && ce.fn != nil && len(typs) > 0 {
		if _, isIface := typs[0].Underlying().(*types.Interface); !isIface {
			args[0] = vc.unbox(fmt.Sprintf("(i_val %s)", args[0]), typs[0])
		}
	}
	env := vc.newEnv(k, st, st.clone())
	env.frame = nil
	if strings.Contains(k.Name, " in ") {
		// a contract scoped to this caller may mention the caller's locals and
		// parameters by name (the callee's own parameter names win)
		env.frame = fr
		env.callSite = true
		for _, p := range fr.fn.Params {
			if _, bound := fr.vals[p]; bound {
				env.vars[p.Name()] = cval{t: fr.val(p), typ: p.Type(), sort: vc.sortOf(p.Type())}
			}
		}
	}
	for i, n := range names {
		if i < len(args) {
			cv := cval{t: args[i], typ: typs[i], sort: vc.sortOf(typs[i])}
			env.vars[n] = cv
			env.vars[fmt.Sprintf("p%d", i)] = cv
			if i == 0 && (c.IsInvoke() || c.Signature().Recv() != nil) {
				env.vars["self"] = cv
			}
		}
	}
	if ce.clo != nil && ce.fn != nil {
		// contract of a function literal: captured variables by name (cells are read in the current state)
		for i, fv := range ce.fn.FreeVars {
			if i >= len(ce.clo.bindings) {
				break
			}
			b := ce.clo.bindings[i]
			bt := ce.clo.frame.val(b)
			if pt, ok := fv.Type().Underlying().(*types.Pointer); ok && !isAggregate(pt.Elem()) {
				a := vc.cellAddr(pt.Elem(), bt)
				env.vars[fv.Name()] = cval{t: vc.read(st, a), typ: pt.Elem(), sort: vc.sortOf(pt.Elem()), addr: a, cell: true}
			} else {
				env.vars[fv.Name()] = cval{t: bt, typ: fv.Type(), sort: vc.sortOf(fv.Type())}
			}
		}
	}
	if !c.IsInvoke() && ce.dynamic {
		// the function value being called (for contracts on func types)
		env.vars["callee"] = cval{t: fr.val(c.Value), sort: "Int"}
	}
	// address-typed arguments keep their static location
	var argVals []ssa.Value
	if c.IsInvoke() {
		argVals = append(argVals, nil)
	}
	argVals = append(argVals, c.Args...)
	for i, n := range names {
		if i < len(argVals) && argVals[i] != nil {
			if a := fr.addrOf(argVals[i]); a != nil {
				cv := env.vars[n]
				cv.addr = a
				env.vars[n] = cv
			}
		}
	}
	// variadic/literal slice arguments of small constant length: seed the element
	// terms quantified clauses of the callee's contract are triggered by
	for _, a := range c.Args {
		sl, ok := a.(*ssa.Slice)
		if !ok || vc.contract == nil || !vc.contract.Flags["seed-elems"] {
			continue
		}
		pt, ok := sl.X.Type().Underlying().(*types.Pointer)
		if !ok {
			continue
		}
		at, ok := pt.Elem().Underlying().(*types.Array)
		if !ok || at.Len() > 8 || isAggregate(at.Elem()) {
			continue
		}
		sv := fr.val(a)
		ev := vc.elemVar(at.Elem())
		row := fmt.Sprintf("(select %s (s_base %s))", vc.look(st, ev), sv)
		fn := vc.slAt(vc.sortOf(at.Elem()))
		for i := int64(0); i < at.Len(); i++ {
			vc.emit(fmt.Sprintf("(assert (= (%s %s (s_off %s) %d) (select %s (+ (s_off %s) %d))))", fn, row, sv, i, row, sv, i))
		}
	}
	pre := st.clone()
	env.old = pre
	env.cur = pre
	fr.callSeq[ce.name]++
	label := fmt.Sprintf("call#%d %s", fr.callSeq[ce.name], ce.name)
	env.evalLets(k)
	for _, rq := range k.Requires {
		g := env.evalBool(rq.E)
		if k.Kind == "iface" && false {
			continue
		}
		nm := fmt.Sprintf("%s/%s/%s/requires[%s]", vc.prop, QualName(fr.fn), label, rq.Name)
		if fr.parent != nil {
			nm = fmt.Sprintf("%s/%s/%s (in %s)/requires[%s]", vc.prop, vc.qname, label, QualName(fr.fn), rq.Name)
		}
		// a precondition is an obligation of the property being checked only if the
		// clause (or, for untagged clauses, the callee's contract) belongs to it;
		// otherwise it is assumed here and checked when its own property runs
		applies := rq.appliesTo(vc.prop)
		if len(rq.Props) == 0 && len(k.Props) > 0 && !k.hasProp(vc.prop) {
			applies = false
		}
		if !applies {
			// ... unless the calling function is not verified under any property the
			// clause belongs to: then nobody else would ever check it at this site
			owners := rq.Props
			if len(owners) == 0 {
				owners = k.Props
			}
			root := fr
			for root.parent != nil {
				root = root.parent
			}
			covered := false
			if root.spec != nil {
				for _, q := range owners {
					if root.spec.hasProp(q) {
						covered = true
					}
				}
			}
			if covered {
				vc.assume(*reach, g)
				continue
			}
		}
		ob := vc.oblige("requires", nm, rq.Src, *reach, g, site.Pos(), rq.Claimed)
		for _, q := range rq.Props {
			if q == vc.prop {
				ob.Tagged = true
			}
		}
	}
	if k.Flags["spawns"] && !fr.spawning {
		// the callee starts its function argument on another goroutine (or refuses it):
		// the argument's own precondition must hold here, like at a go statement
		for _, a := range c.Args {
			if cl := fr.clos[a]; cl != nil {
				if kc := vc.DB.Funcs[calleeName(cl.fn)]; kc != nil {
					r := *reach
					fr.spawning = true
					fr.applyContract(site, kc, callee{fn: cl.fn, name: calleeName(cl.fn), clo: cl}, &ssa.CallCommon{Value: a}, st, &r)
					fr.spawning = false
				}
			}
		}
	}
	if fr.spawning {
		// go statement: only the spawn-time ghost code of the contract takes effect here
		env.cur = st
		for _, gs := range k.SpawnSets {
			env.applyGhostSet(gs, st)
		}
		return nil
	}
	// results (created first so that modifies items may mention them, e.g. fields(result))
	sig := c.Signature()
	var res []string
	for i := 0; i < sig.Results().Len(); i++ {
		t := sig.Results().At(i).Type()
		v := vc.fresh("r."+sym(trimPkg(ce.name)), vc.sortOf(t))
		res = append(res, v)
		env.results = append(env.results, cval{t: v, typ: t, sort: vc.sortOf(t)})
	}
	// havoc the frame
	if k.Flags["libframe"] {
		fr.escapeArgs(c, st)
		vc.havocLib(st)
		env.cur = pre
		for _, m := range k.Modifies {
			env.havocLoc(m, st)
		}
	} else if k.ModAll || !k.HasMod && !k.Flags["pure"] {
		if !k.Flags["pure"] {
			vc.Unmodelled["callee contract without modifies clause (heap havocked): "+ce.name]++
			vc.havocAll(st, *reach)
		}
	} else {
		env.cur = pre
		for _, m := range k.Modifies {
			env.havocLoc(m, st)
		}
		vc.havocVar(st, "$alloc")
	}
	env.cur = st
	for i := 0; i < sig.Results().Len(); i++ {
		t := sig.Results().At(i).Type()
		vc.assume(*reach, vc.rangeFact(res[i], t))
		vc.assume(*reach, fr.allocFact(st, res[i], t))
	}
	env.evalLets(k)
	for _, gs := range k.GhostSets {
		env.applyGhostSet(gs, st)
	}
	for _, en := range k.Ensures {
		if en.OnlyPanic {
			// about the callee's recovered exit only: nothing is known here (the caller
			// cannot tell which exit was taken)
			continue
		}
		vc.assume(*reach, env.evalBool(en.E))
	}
	if k.Flags["noreturn"] {
		vc.assume(*reach, "false")
	}
	if k.Flags["may-panic"] {
		// exceptional edge: the callee may panic after having had its effect
		p := vc.fresh("panicked", "Bool")
		fr.panics = append(fr.panics, mergeIn{sAnd(*reach, p), st.clone()})
		*reach = vc.def("nopanic", "Bool", sAnd(*reach, sNot(p)))
	}
	return res
}

// ---------------------------------------------------------------------------
// Defers, go statements

func (fr *Frame) runDefers(st *State, reach string, panicking bool) string {
	vc := fr.vc
	for i := len(fr.defers) - 1; i >= 0; i-- {
		d := fr.defers[i]
		flag := fr.deferFlag(d)
		fv, ok := st.H[flag]
		if !ok {
			continue
		}
		if fv == "false" {
			continue
		}
		if fv != "true" {
			// conditionally registered defer: run under the flag, merge
			skip := st.clone()
			cond := sAnd(reach, fv)
			r2 := cond
			fr.callDeferred(d, st, &r2, panicking)
			m := vc.merge([]mergeIn{{r2, st}, {sAnd(reach, sNot(fv)), skip}})
			*st = *m
			reach = vc.def("afterdefer", "Bool", sOr(r2, sAnd(reach, sNot(fv))))
			continue
		}
		fr.callDeferred(d, st, &reach, panicking)
	}
	return reach
}

func (fr *Frame) callDeferred(d *ssa.Defer, st *State, reach *string, panicking bool) {
	old := fr.panicking
	fr.panicking = panicking
	n := len(fr.panics)
	fr.call(d, d.Common(), st, reach)
	fr.panicking = old
	// a panic raised while a deferred call runs leaves the function panicking
	// (after the remaining defers); the deferred call itself does not run again
	if len(fr.panics) > n {
		fr.deferPanics = append(fr.deferPanics, fr.panics[n:]...)
		fr.panics = fr.panics[:n:n]
	}
}

func (fr *Frame) goStmt(x *ssa.Go, st *State, reach *string) {
	vc := fr.vc
	ce := fr.resolve(x.Common())
	// a spawned function with a contract: its requires must hold at the spawn
	// point; its effects happen concurrently (not assumed here).
	if k := vc.DB.Funcs[ce.name]; k != nil {
		r := *reach
		fr.spawning = true
		fr.applyContract(x, k, ce, x.Common(), st, &r)
		fr.spawning = false
	}
	if _, ok := vc.DB.Ghosts["global:spawned"]; ok {
		hv := vc.heapVar("Gh!spawned", "Int")
		vc.set(st, hv, "Int", fmt.Sprintf("(+ %s 1)", vc.look(st, hv)))
	}
	vc.CalleesUsed["go "+ce.name] = "spawn"
}

// ---------------------------------------------------------------------------
// May-modify summaries of module functions without contract

type modSet struct {
	vars     map[string]bool
	all      bool
	escaping bool
	lib      bool // includes the effect of a libframe call
}

// calleePkgPath: package of a non-module callee (static function or the named
// interface type of an invoke-mode call).
func calleePkgPath(ce callee, c *ssa.CallCommon) string {
	if c.IsInvoke() {
		if n, ok := c.Value.Type().(*types.Named); ok && n.Obj().Pkg() != nil && !inModule(n.Obj().Pkg()) {
			return n.Obj().Pkg().Path()
		}
		return ""
	}
	if ce.fn != nil && ce.fn.Object() != nil && ce.fn.Object().Pkg() != nil && !inModule(ce.fn.Object().Pkg()) && ce.fn.Parent() == nil {
		return ce.fn.Object().Pkg().Path()
	}
	return ""
}

var modCache = map[*ssa.Function]*modSet{}
var modBusy = map[*ssa.Function]bool{}

func (vc *VC) modsOfFunc(fn *ssa.Function, fr *Frame) ([]string, bool) {
	ms := vc.modSummary(fn, 0)
	if ms.all {
		return nil, true
	}
	out := make([]string, 0, len(ms.vars))
	for v := range ms.vars {
		out = append(out, v)
	}
	sort.Strings(out)
	return out, false
}

func (vc *VC) modsOfBlocks(fr *Frame, blocks map[*ssa.BasicBlock]bool) ([]string, bool) {
	ms := &modSet{vars: map[string]bool{}}
	for b := range blocks {
		for _, in := range b.Instrs {
			vc.modsOfInstr(in, ms, 0, fr)
			if ms.all {
				return nil, true
			}
		}
	}
	if ms.lib {
		for _, v := range sortedKeys(vc.hsort) {
			if ((strings.HasPrefix(v, "E!") || strings.HasPrefix(v, "C!")) && !vc.modElem[v]) || vc.libVars[v] {
				ms.vars[v] = true
			}
		}
	}
	out := make([]string, 0, len(ms.vars))
	for v := range ms.vars {
		out = append(out, v)
	}
	sort.Strings(out)
	return out, false
}

func (vc *VC) modSummary(fn *ssa.Function, depth int) *modSet {
	if ms, ok := modCache[fn]; ok {
		return ms
	}
	if modBusy[fn] || depth > 12 {
		return &modSet{vars: map[string]bool{}} // recursion: fixpoint approximated by the outer call
	}
	if len(fn.Blocks) == 0 {
		return &modSet{all: true}
	}
	modBusy[fn] = true
	ms := &modSet{vars: map[string]bool{}}
	for _, b := range fn.Blocks {
		for _, in := range b.Instrs {
			vc.modsOfInstr(in, ms, depth, nil)
			if ms.all {
				break
			}
		}
		if ms.all {
			break
		}
	}
	delete(modBusy, fn)
	if depth == 0 || !ms.all {
		modCache[fn] = ms
	}
	return ms
}

func (vc *VC) modsOfInstr(in ssa.Instruction, ms *modSet, depth int, fr *Frame) {
	switch x := in.(type) {
	case *ssa.Store:
		vc.modsOfAddr(x.Addr, ms)
	case *ssa.MapUpdate:
		mt := x.Map.Type().Underlying().(*types.Map)
		h, v, l := vc.mapVars(mt)
		ms.vars[h], ms.vars[v], ms.vars[l] = true, true, true
	case *ssa.Alloc, *ssa.MakeSlice, *ssa.MakeMap, *ssa.MakeChan, *ssa.MakeClosure:
		ms.vars["$alloc"] = true
		if a, ok := x.(*ssa.Alloc); ok {
			elem := a.Type().(*types.Pointer).Elem()
			if !isAggregate(elem) {
				ms.vars[vc.cellAddr(elem, "0").Var] = true
			} else {
				vc.modsStructFields(elem, ms, 0)
			}
		}
		if m, ok := x.(*ssa.MakeSlice); ok {
			ms.vars[vc.elemVar(m.Type().Underlying().(*types.Slice).Elem())] = true
		}
		if m, ok := x.(*ssa.MakeMap); ok {
			h, v, l := vc.mapVars(m.Type().Underlying().(*types.Map))
			ms.vars[h], ms.vars[v], ms.vars[l] = true, true, true
		}
	case *ssa.Send:
		if _, ok := vc.DB.Ghosts["field:chanSent"]; ok {
			ms.vars["GF!chanSent"] = true
		}
	case *ssa.Convert:
		ms.vars["$alloc"] = true
	case *ssa.Go:
		// concurrent effects are not sequential effects of this function
	case ssa.CallInstruction:
		vc.modsOfCall(x, ms, depth, fr)
	}
}

func (vc *VC) modsStructFields(T types.Type, ms *modSet, d int) {
	s, ok := structOf(T)
	if !ok || d > 3 {
		return
	}
	for i := 0; i < s.NumFields(); i++ {
		if isAggregate(s.Field(i).Type()) {
			vc.modsStructFields(s.Field(i).Type(), ms, d+1)
		} else {
			a, _ := vc.fieldAddr(T, i, "0")
			ms.vars[a.Var] = true
		}
	}
}

func (vc *VC) modsOfAddr(p ssa.Value, ms *modSet) {
	switch a := p.(type) {
	case *ssa.FieldAddr:
		T := a.X.Type().Underlying().(*types.Pointer).Elem()
		ad, _ := vc.fieldAddr(T, a.Field, "0")
		if ad != nil {
			ms.vars[ad.Var] = true
		} else {
			s, _ := structOf(T)
			vc.modsStructFields(s.Field(a.Field).Type(), ms, 0)
		}
		return
	case *ssa.IndexAddr:
		var et types.Type
		switch t := a.X.Type().Underlying().(type) {
		case *types.Slice:
			et = t.Elem()
		case *types.Pointer:
			et = t.Elem().Underlying().(*types.Array).Elem()
		}
		if isAggregate(et) {
			vc.modsStructFields(et, ms, 0)
		} else {
			ms.vars[vc.elemVar(et)] = true
		}
		return
	case *ssa.Global:
		elem := a.Type().(*types.Pointer).Elem()
		if !isAggregate(elem) {
			ms.vars[vc.heapVar("G!"+shortPkg(a.Pkg.Pkg.Path())+"."+a.Name(), vc.sortOf(elem))] = true
		} else {
			vc.modsStructFields(elem, ms, 0)
		}
		return
	}
	pt, ok := p.Type().Underlying().(*types.Pointer)
	if !ok {
		ms.all = true
		return
	}
	if isAggregate(pt.Elem()) {
		vc.modsStructFields(pt.Elem(), ms, 0)
		return
	}
	// a pointer of unknown origin: may point at a cell, a field or an element of that type
	ms.vars[vc.cellAddr(pt.Elem(), "0").Var] = true
	ms.escaping = true
}

func (vc *VC) modsOfCall(x ssa.CallInstruction, ms *modSet, depth int, fr *Frame) {
	c := x.Common()
	if b, ok := c.Value.(*ssa.Builtin); ok {
		switch b.Name() {
		case "append":
			st := c.Args[0].Type().Underlying().(*types.Slice)
			ms.vars[vc.elemVar(st.Elem())] = true
			ms.vars["$alloc"] = true
		case "copy":
			if st, ok := c.Args[0].Type().Underlying().(*types.Slice); ok {
				if isAggregate(st.Elem()) {
					flds, _ := vc.flatFieldVars(st.Elem())
					for _, hv := range flds {
						ms.vars[hv] = true
					}
				} else {
					ms.vars[vc.elemVar(st.Elem())] = true
				}
			}
		case "delete":
			mt := c.Args[0].Type().Underlying().(*types.Map)
			h, v, l := vc.mapVars(mt)
			ms.vars[h], ms.vars[v], ms.vars[l] = true, true, true
		case "close":
			if _, ok := vc.DB.Ghosts["field:chanClosed"]; ok {
				ms.vars["GF!chanClosed"] = true
			}
		}
		return
	}
	var name string
	var fn *ssa.Function
	if c.IsInvoke() {
		it := c.Value.Type()
		if conc, ok := vc.DB.Sealed[typeKey(it)]; ok {
			fn = vc.P.lookupMethod(conc, c.Method.Name())
		}
		if fn == nil {
			name = typeKey(it) + "." + c.Method.Name()
		}
	} else if f := c.StaticCallee(); f != nil {
		fn = f
	} else if fr != nil {
		if cl := fr.clos[c.Value]; cl != nil {
			fn = cl.fn
		}
	}
	if fn != nil {
		name = calleeName(fn)
	}
	if name == "" && !c.IsInvoke() {
		name = "dynamic:" + typeKey(c.Value.Type())
		if vc.DB.Funcs[name+" in "+QualName(x.Parent())] != nil {
			name = name + " in " + QualName(x.Parent())
		} else if vc.DB.Funcs[name] == nil {
			name = ""
		}
	} else if name != "" && vc.DB.Funcs[name+" in "+QualName(x.Parent())] != nil {
		name = name + " in " + QualName(x.Parent())
	}
	if name == "" {
		if os.Getenv("GOVC_DEBUG_MODS") != "" {
			fmt.Fprintf(os.Stderr, "mods: unresolved call %s in %s\n", x, QualName(x.Parent()))
		}
		ms.all = true
		return
	}
	if strings.HasPrefix(name, "sync/atomic.") {
		if !strings.HasPrefix(name, "sync/atomic.Load") && len(c.Args) > 0 {
			vc.modsOfAddr(c.Args[0], ms)
		}
		return
	}
	if m, ok := modelMods[name]; ok {
		for _, v := range m {
			if _, declared := vc.hsort[v]; declared || strings.HasPrefix(v, "$") {
				ms.vars[v] = true
			}
		}
		return
	}
	if k := vc.DB.Funcs[name]; k != nil {
		if k.Flags["pure"] {
			return
		}
		if k.Flags["libframe"] {
			ms.lib = true
			ms.vars["$alloc"] = true
			if !k.HasMod {
				return
			}
		}
		if k.ModAll || !k.HasMod {
			ms.all = true
			return
		}
		for _, m := range k.Modifies {
			vs, ok := vc.modVarsOfExpr(m, fn, k, c.Signature())
			if !ok {
				if os.Getenv("GOVC_DEBUG_MODS") != "" {
					fmt.Fprintf(os.Stderr, "mods: cannot evaluate modifies item %s of %s\n", m, name)
				}
				ms.all = true
				return
			}
			for _, v := range vs {
				ms.vars[v] = true
			}
		}
		for _, gs := range k.GhostSets {
			vs, ok := vc.modVarsOfExpr(gs.Loc, fn, k, c.Signature())
			if !ok {
				ms.all = true
				return
			}
			for _, v := range vs {
				ms.vars[v] = true
			}
		}
		ms.vars["$alloc"] = true
		return
	}
	if vc.DB.Pure[name] || (fn != nil && purePkgCall(callee{fn: fn})) {
		return
	}
	if pk := calleePkgPath(callee{fn: fn}, c); pk != "" && vc.DB.LibFrame[pk] {
		ms.lib = true
		ms.vars["$alloc"] = true
		return
	}
	if fn != nil && len(fn.Blocks) > 0 {
		sub := vc.modSummary(fn, depth+1)
		if sub.all {
			ms.all = true
			return
		}
		if sub.lib {
			ms.lib = true
		}
		for v := range sub.vars {
			ms.vars[v] = true
		}
		return
	}
	if os.Getenv("GOVC_DEBUG_MODS") != "" {
		fmt.Fprintf(os.Stderr, "mods: no summary for %s (called in %s)\n", name, QualName(x.Parent()))
	}
	ms.all = true
}

// escapeArgs marks the backing arrays of slice-typed arguments as handed out.
func (fr *Frame) escapeArgs(c *ssa.CallCommon, st *State) {
	for _, a := range c.Args {
		switch a.Type().Underlying().(type) {
		case *types.Slice:
			fr.vc.markEscaped(st, fr.val(a))
		case *types.Interface:
			// pointers boxed into an interface by this function are marked where they
			// are boxed (MakeInterface); an interface value of unknown provenance is not
			// tracked (its untyped payload would alias arbitrary addresses)
		case *types.Pointer:
			// struct fields live in per-field arrays that libframe treats by type;
			// only cells (pointers to non-aggregate values) need an escape bit
			switch a.Type().Underlying().(*types.Pointer).Elem().Underlying().(type) {
			case *types.Struct:
			case *types.Array:
				fr.vc.markEscapedBase(st, fr.val(a))
			default:
				fr.vc.markEscapedRef(st, fr.val(a))
			}
		}
	}
}

// noAliasResults: what a library call returns cannot point into an array this
// function allocated and never handed out: it is pre-existing, handed out, or
// allocated by the call.
func (fr *Frame) noAliasResults(sig *types.Signature, res []string, st *State, reach, allocPre string) {
	vc := fr.vc
	alloc0 := vc.look(vc.entry, "$alloc")
	esc := "false"
	if _, ok := vc.hsort["$escaped"]; ok {
		esc = ""
	}
	for i := 0; i < sig.Results().Len() && i < len(res); i++ {
		var base string
		switch sig.Results().At(i).Type().Underlying().(type) {
		case *types.Slice:
			base = "(s_base " + res[i] + ")"
		case *types.Pointer:
			base = res[i]
		default:
			continue
		}
		e := esc
		if e == "" {
			e = fmt.Sprintf("(select %s %s)", vc.look(st, "$escaped"), base)
		}
		vc.assume(reach, fmt.Sprintf("(or (<= %s %s) %s (> %s %s))", base, alloc0, e, base, allocPre))
	}
}
