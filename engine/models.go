package main

import (
	"go/token"
	"fmt"
	"go/types"
	"strings"

	"golang.org/x/tools/go/ssa"
)

// modelMods lists the heap variables the built-in library models write
// (used by the may-modify summaries).
var modelMods = map[string][]string{
	"(*sync.Mutex).Lock":      {"$held"},
	"(*sync.Mutex).Unlock":    {"$held"},
	"(*sync.RWMutex).Lock":    {"$held"},
	"(*sync.RWMutex).Unlock":  {"$held"},
	"(*sync.RWMutex).RLock":   {"$rheld"},
	"(*sync.RWMutex).RUnlock": {"$rheld"},
	"(*sync.WaitGroup).Add":   {"$wg"},
	"(*sync.WaitGroup).Done":  {"$wg"},
	"(*sync.WaitGroup).Wait":  {"$waited"},
	"sync/atomic.LoadInt32":   {},
	"sync/atomic.LoadInt64":   {},
	"sync/atomic.LoadUint32":  {},
	"sync/atomic.LoadUint64":  {},
	"sync/atomic.LoadPointer": {},
}

func init() {
	for _, op := range []string{"Store", "Add", "CompareAndSwap", "Swap"} {
		for _, t := range []string{"Int32", "Int64", "Uint32", "Uint64"} {
			modelMods["sync/atomic."+op+t] = []string{"?atomic"}
		}
	}
}

func (fr *Frame) builtin(site ssa.Instruction, b *ssa.Builtin, c *ssa.CallCommon, st *State, reach string) []string {
	vc := fr.vc
	switch b.Name() {
	case "len":
		a := c.Args[0]
		v := fr.val(a)
		switch t := a.Type().Underlying().(type) {
		case *types.Slice:
			return []string{vc.def("len", "Int", "(s_len "+v+")")}
		case *types.Basic:
			return []string{vc.def("len", "Int", "(strlen "+v+")")}
		case *types.Map:
			_, _, ln := vc.mapVars(t)
			r := vc.def("len", "Int", fmt.Sprintf("(ite (= %s 0) 0 (select %s %s))", v, vc.look(st, ln), v))
			vc.assume(reach, "(>= "+r+" 0)")
			return []string{r}
		case *types.Array:
			return []string{fmt.Sprint(t.Len())}
		case *types.Pointer:
			if at, ok := t.Elem().Underlying().(*types.Array); ok {
				return []string{fmt.Sprint(at.Len())}
			}
		}
		r := vc.fresh("len", "Int")
		vc.assume(reach, "(>= "+r+" 0)")
		return []string{r}
	case "cap":
		a := c.Args[0]
		if _, ok := a.Type().Underlying().(*types.Slice); ok {
			return []string{vc.def("cap", "Int", "(s_cap "+fr.val(a)+")")}
		}
		r := vc.fresh("cap", "Int")
		vc.assume(reach, "(>= "+r+" 0)")
		return []string{r}
	case "append":
		return []string{fr.appendModel(site, c, st, reach)}
	case "copy":
		return []string{fr.copyModel(c, st, reach)}
	case "delete":
		mt := c.Args[0].Type().Underlying().(*types.Map)
		has, _, ln := vc.mapVars(mt)
		m, k := fr.val(c.Args[0]), fr.val(c.Args[1])
		hcur, lcur := vc.look(st, has), vc.look(st, ln)
		vc.set(st, ln, vc.hsort[ln], fmt.Sprintf("(store %s %s (ite (select (select %s %s) %s) (- (select %s %s) 1) (select %s %s)))", lcur, m, hcur, m, k, lcur, m, lcur, m))
		vc.set(st, has, vc.hsort[has], fmt.Sprintf("(store %s %s (store (select %s %s) %s false))", hcur, m, hcur, m, k))
		return nil
	case "close":
		if _, ok := vc.DB.Ghosts["field:chanClosed"]; ok {
			hv := vc.heapVar("GF!chanClosed", "(Array Int Bool)")
			ch := fr.val(c.Args[0])
			fr.safety(st, reach, "close-of-closed-channel", fmt.Sprintf("(not (select %s %s))", vc.look(st, hv), ch), site.Pos())
			vc.set(st, hv, vc.hsort[hv], fmt.Sprintf("(store %s %s true)", vc.look(st, hv), ch))
		}
		return nil
	case "recover":
		for f := fr; f != nil; f = f.parent {
			if f.panicking {
				r := vc.fresh("recovered", "Iface")
				vc.assume(reach, fmt.Sprintf("(not (= (i_type %s) 0))", r))
				return []string{r}
			}
		}
		if fr.parent == nil {
			// the function under verification calls recover() itself, so it is meant to
			// be deferred: verified on its own it may run on a normal or a panicking exit
			return []string{vc.fresh("recovered", "Iface")}
		}
		return []string{zeroOf("Iface")}
	case "print", "println":
		return nil
	case "min", "max":
		op := "<="
		if b.Name() == "max" {
			op = ">="
		}
		r := fr.val(c.Args[0])
		for _, a := range c.Args[1:] {
			v := fr.val(a)
			r = fmt.Sprintf("(ite (%s %s %s) %s %s)", op, r, v, r, v)
		}
		return []string{vc.def(b.Name(), "Int", r)}
	case "ssa:wrapnilchk":
		return []string{fr.val(c.Args[0])}
	}
	vc.warn("builtin %s not modelled", b.Name())
	return fr.freshResults(c.Signature(), st, reach, "", nil)
}

// appendModel follows the language specification: in place when the capacity
// suffices (same backing array), otherwise a fresh backing array with the
// prefix copied and an unconstrained larger capacity.
func (fr *Frame) appendModel(site ssa.Instruction, c *ssa.CallCommon, st *State, reach string) string {
	vc := fr.vc
	s := fr.val(c.Args[0])
	st0 := c.Args[0].Type().Underlying().(*types.Slice)
	et := st0.Elem()
	esort := vc.sortOf(et)
	ev := vc.elemVar(et)
	E := vc.look(st, ev)
	// source elements
	var n string
	var srcAt func(j string) string
	var unrolled []string
	arg := c.Args[1]
	if sl, ok := arg.(*ssa.Slice); ok {
		if al, ok := sl.X.(*ssa.Alloc); ok && sl.Low == nil && sl.High == nil {
			if at, ok := al.Type().(*types.Pointer).Elem().Underlying().(*types.Array); ok && at.Len() <= 4 {
				for j := int64(0); j < at.Len(); j++ {
					unrolled = append(unrolled, fmt.Sprintf("(select (select %s %s) %d)", E, fr.val(al), j))
				}
			}
		}
	}
	t := fr.val(arg)
	if bt, ok := arg.Type().Underlying().(*types.Basic); ok && bt.Info()&types.IsString != 0 {
		n = "(strlen " + t + ")"
		srcAt = func(j string) string { return fmt.Sprintf("(str_at %s %s)", t, j) }
	} else {
		n = "(s_len " + t + ")"
		srcAt = func(j string) string {
			return fmt.Sprintf("(select (select %s (s_base %s)) (+ (s_off %s) %s))", E, t, t, j)
		}
	}
	if isAggregate(et) {
		// elements are structs: layout by eaddr; content not tracked precisely
		vc.Unmodelled["append of struct elements: element contents abstracted"]++
		r := vc.fresh("append", "Slice")
		vc.assume(reach, fmt.Sprintf("(and (= (s_len %s) (+ (s_len %s) %s)) (>= (s_cap %s) (s_len %s)) (>= (s_off %s) 0) (> (s_base %s) 0))", r, s, n, r, r, r, r))
		vc.havocVar(st, "$alloc")
		vc.assume(reach, fmt.Sprintf("(<= (s_base %s) %s)", r, vc.look(st, "$alloc")))
		return r
	}
	if unrolled != nil {
		n = fmt.Sprint(len(unrolled))
	}
	ln := vc.def("ap.len", "Int", "(s_len "+s+")")
	newLen := vc.def("ap.newlen", "Int", fmt.Sprintf("(+ %s %s)", ln, n))
	fits := vc.def("ap.fits", "Bool", fmt.Sprintf("(<= %s (s_cap %s))", newLen, s))
	nb := vc.freshRef(st, reach, "ap.base")
	ncap := vc.fresh("ap.cap", "Int")
	vc.assume(reach, fmt.Sprintf("(>= %s %s)", ncap, newLen))
	rowSort := fmt.Sprintf("(Array Int %s)", esort)
	row := vc.def("ap.row", rowSort, fmt.Sprintf("(select %s (s_base %s))", E, s))
	var rowFit, rowGrow string
	if unrolled != nil {
		rowFit = row
		for j, x := range unrolled {
			rowFit = fmt.Sprintf("(store %s (+ (s_off %s) %s %d) %s)", rowFit, s, ln, j, x)
		}
		rowFit = vc.def("ap.rowfit", rowSort, rowFit)
		rg := vc.fresh("ap.rowgrow0", rowSort)
		vc.assume(reach, fmt.Sprintf("(forall ((i Int)) (! (=> (and (<= 0 i) (< i %s)) (= (select %s i) (select %s (+ (s_off %s) i)))) :pattern ((select %s i))))", ln, rg, row, s, rg))
		rowGrow = rg
		for j, x := range unrolled {
			rowGrow = fmt.Sprintf("(store %s (+ %s %d) %s)", rowGrow, ln, j, x)
		}
		rowGrow = vc.def("ap.rowgrow", rowSort, rowGrow)
	} else {
		rf := vc.fresh("ap.rowfit", rowSort)
		vc.assume(reach, fmt.Sprintf("(forall ((j Int)) (! (= (select %s j) (ite (and (<= (+ (s_off %s) %s) j) (< j (+ (s_off %s) %s))) %s (select %s j))) :pattern ((select %s j))))",
			rf, s, ln, s, newLen, srcAt(fmt.Sprintf("(- j (+ (s_off %s) %s))", s, ln)), row, rf))
		rowFit = rf
		rg := vc.fresh("ap.rowgrow", rowSort)
		vc.assume(reach, fmt.Sprintf("(forall ((j Int)) (! (and (=> (and (<= 0 j) (< j %s)) (= (select %s j) (select %s (+ (s_off %s) j)))) (=> (and (<= %s j) (< j %s)) (= (select %s j) %s))) :pattern ((select %s j))))",
			ln, rg, row, s, ln, newLen, rg, srcAt(fmt.Sprintf("(- j %s)", ln)), rg))
		rowGrow = rg
	}
	vc.set(st, ev, vc.hsort[ev], fmt.Sprintf("(ite %s (store %s (s_base %s) %s) (store %s %s %s))", fits, E, s, rowFit, E, nb, rowGrow))
	r := vc.def("append", "Slice", fmt.Sprintf("(ite %s (mk_slice (s_base %s) (s_off %s) %s (s_cap %s)) (mk_slice %s 0 %s %s))", fits, s, s, newLen, s, nb, newLen, ncap))
	if isByteSlice(c.Args[0].Type()) && vc.useSeq && isByteSlice(arg.Type()) {
		// content of the result (instantiated sequence fact): old content ++ appended bytes
		pre := &State{epoch: st.epoch, H: map[string]string{}}
		for k, v := range st.H {
			pre.H[k] = v
		}
		pre.H[ev] = E
		vc.assume(reach, sEq(vc.viewOf(st, r), fmt.Sprintf("(seq_cat %s %s)", vc.viewOf(pre, s), vc.viewOf(pre, t))))
	}
	// buffered data: the new logical length when the array has to grow
	fr.noteAlloc(st, reach, sIte(fits, "0", newLen), site.Pos())
	return r
}

func (fr *Frame) copyModel(c *ssa.CallCommon, st *State, reach string) string {
	vc := fr.vc
	d := fr.val(c.Args[0])
	dt := c.Args[0].Type().Underlying().(*types.Slice)
	et := dt.Elem()
	if isAggregate(et) {
		flds, flat := vc.flatFieldVars(et)
		if !flat {
			// nested aggregates: every field array of the element type is havocked
			vc.Unmodelled["copy of nested struct elements: element contents abstracted"]++
			for _, hv := range flds {
				vc.havocVar(st, hv)
			}
			return vc.fresh("copy", "Int")
		}
		// flat struct elements: field-wise copy of the first n elements
		src := fr.val(c.Args[1])
		n := vc.def("copy.n", "Int", fmt.Sprintf("(ite (<= (s_len %s) (s_len %s)) (s_len %s) (s_len %s))", d, src, d, src))
		fn := vc.eaddrFun(et)
		for _, hv := range flds {
			cur := vc.look(st, hv)
			nv := vc.fresh("copy."+hv, vc.hsort[hv])
			vc.assume(reach, fmt.Sprintf("(forall ((a Int)) (! (= (select %s a) (ite (and (= a (%s (%s!b a) (%s!i a))) (= (%s!b a) (s_base %s)) (<= (s_off %s) (%s!i a)) (< (%s!i a) (+ (s_off %s) %s))) (select %s (%s (s_base %s) (+ (s_off %s) (- (%s!i a) (s_off %s))))) (select %s a))) :pattern ((select %s a))))",
				nv, fn, fn, fn, fn, d, d, fn, fn, d, n, cur, fn, src, src, fn, d, cur, nv))
			vc.set(st, hv, vc.hsort[hv], nv)
		}
		return n
	}
	ev := vc.elemVar(et)
	E := vc.look(st, ev)
	src := fr.val(c.Args[1])
	var slen string
	var srcAt func(j string) string
	if bt, ok := c.Args[1].Type().Underlying().(*types.Basic); ok && bt.Info()&types.IsString != 0 {
		slen = "(strlen " + src + ")"
		srcAt = func(j string) string { return fmt.Sprintf("(str_at %s %s)", src, j) }
	} else {
		slen = "(s_len " + src + ")"
		srcAt = func(j string) string {
			return fmt.Sprintf("(select (select %s (s_base %s)) (+ (s_off %s) %s))", E, src, src, j)
		}
	}
	n := vc.def("copy.n", "Int", fmt.Sprintf("(ite (<= (s_len %s) %s) (s_len %s) %s)", d, slen, d, slen))
	rowSort := fmt.Sprintf("(Array Int %s)", vc.sortOf(et))
	row := fmt.Sprintf("(select %s (s_base %s))", E, d)
	nr := vc.fresh("copy.row", rowSort)
	vc.assume(reach, fmt.Sprintf("(forall ((j Int)) (! (= (select %s j) (ite (and (<= (s_off %s) j) (< j (+ (s_off %s) %s))) %s (select %s j))) :pattern ((select %s j))))",
		nr, d, d, n, srcAt(fmt.Sprintf("(- j (s_off %s))", d)), row, nr))
	vc.set(st, ev, vc.hsort[ev], fmt.Sprintf("(store %s (s_base %s) %s)", E, d, nr))
	return n
}

// model: hand-written semantics of synchronisation primitives and a few
// library functions whose effect the contract language cannot express
// (they operate on statically resolved addresses or the lockset).
func (fr *Frame) model(site ssa.Instruction, ce callee, c *ssa.CallCommon, st *State, reach *string) ([]string, bool) {
	vc := fr.vc
	name := ce.name
	switch name {
	case "(*sync.Mutex).Lock", "(*sync.RWMutex).Lock":
		m := fr.val(c.Args[0])
		hv := vc.heapVar("$held", "(Array Int Bool)")
		fr.lockObl(site, st, *reach, "lock-not-held", fmt.Sprintf("(not (select %s %s))", vc.look(st, hv), m))
		vc.set(st, hv, vc.hsort[hv], fmt.Sprintf("(store %s %s true)", vc.look(st, hv), m))
		fr.acquireInv(c.Args[0], m, st, *reach)
		return nil, true
	case "(*sync.Mutex).Unlock", "(*sync.RWMutex).Unlock":
		m := fr.val(c.Args[0])
		hv := vc.heapVar("$held", "(Array Int Bool)")
		fr.lockObl(site, st, *reach, "unlock-held", fmt.Sprintf("(select %s %s)", vc.look(st, hv), m))
		fr.releaseInv(site, c.Args[0], m, st, *reach)
		vc.set(st, hv, vc.hsort[hv], fmt.Sprintf("(store %s %s false)", vc.look(st, hv), m))
		return nil, true
	case "(*sync.RWMutex).RLock":
		m := fr.val(c.Args[0])
		hv := vc.heapVar("$rheld", "(Array Int Int)")
		vc.assume(*reach, fmt.Sprintf("(>= (select %s %s) 0)", vc.look(st, hv), m))
		vc.set(st, hv, vc.hsort[hv], fmt.Sprintf("(store %s %s (+ (select %s %s) 1))", vc.look(st, hv), m, vc.look(st, hv), m))
		return nil, true
	case "(*sync.RWMutex).RUnlock":
		m := fr.val(c.Args[0])
		hv := vc.heapVar("$rheld", "(Array Int Int)")
		fr.lockObl(site, st, *reach, "runlock-held", fmt.Sprintf("(> (select %s %s) 0)", vc.look(st, hv), m))
		vc.set(st, hv, vc.hsort[hv], fmt.Sprintf("(store %s %s (- (select %s %s) 1))", vc.look(st, hv), m, vc.look(st, hv), m))
		return nil, true
	case "(*sync.WaitGroup).Add":
		w := fr.val(c.Args[0])
		hv := vc.heapVar("$wg", "(Array Int Int)")
		vc.set(st, hv, vc.hsort[hv], fmt.Sprintf("(store %s %s (+ (select %s %s) %s))", vc.look(st, hv), w, vc.look(st, hv), w, fr.val(c.Args[1])))
		return nil, true
	case "(*sync.WaitGroup).Done":
		w := fr.val(c.Args[0])
		hv := vc.heapVar("$wg", "(Array Int Int)")
		vc.set(st, hv, vc.hsort[hv], fmt.Sprintf("(store %s %s (- (select %s %s) 1))", vc.look(st, hv), w, vc.look(st, hv), w))
		return nil, true
	case "(*sync.WaitGroup).Wait":
		w := fr.val(c.Args[0])
		hv := vc.heapVar("$waited", "(Array Int Bool)")
		vc.set(st, hv, vc.hsort[hv], fmt.Sprintf("(store %s %s true)", vc.look(st, hv), w))
		return nil, true
	}
	if strings.HasPrefix(name, "sync/atomic.") {
		return fr.atomicModel(site, strings.TrimPrefix(name, "sync/atomic."), c, st, reach)
	}
	return nil, false
}

func (fr *Frame) lockObl(site ssa.Instruction, st *State, reach, kind, goal string) {
	vc := fr.vc
	top := fr
	for top.parent != nil {
		top = top.parent
	}
	if top.spec == nil || !top.spec.Flags["locks"] {
		if kind == "lock-not-held" {
			// a goroutine that locks a mutex it already holds never continues:
			// past the Lock the mutex was not held by this goroutine before
			vc.assume(reach, goal)
		}
		return
	}
	fr.callSeq["lock:"+kind]++
	name := fmt.Sprintf("%s/%s/lock[%s#%d]", vc.prop, vc.qname, kind, fr.callSeq["lock:"+kind])
	if fr.parent != nil {
		name = fmt.Sprintf("%s/%s/lock[%s#%d in %s]", vc.prop, vc.qname, kind, fr.callSeq["lock:"+kind], QualName(fr.fn))
	}
	vc.oblige("lock", name, kind, reach, goal, site.Pos(), true)
}

// lock invariants (lockinv) are attached later by the contracts; hooks kept here.
// lockInvOf: the declared invariant of the mutex field mv addresses, the owner
// object and its struct type.
func (fr *Frame) lockInvOf(mv ssa.Value) (*LockInv, string, types.Type) {
	fa, ok := mv.(*ssa.FieldAddr)
	if !ok {
		return nil, "", nil
	}
	T := fa.X.Type().Underlying().(*types.Pointer).Elem()
	s, ok := structOf(T)
	if !ok {
		return nil, "", nil
	}
	li := fr.vc.DB.LockInvs[typeKey(T)+"."+s.Field(fa.Field).Name()]
	if li == nil {
		return nil, "", nil
	}
	return li, fr.val(fa.X), T
}

func (fr *Frame) lockInvTerm(li *LockInv, owner string, T types.Type, st *State) string {
	vc := fr.vc
	env := vc.newEnv(&FuncContract{Name: "lockinv " + li.Recv + "." + li.Mutex, Pkg: li.Pkg}, st, st)
	env.vars["self"] = cval{t: owner, typ: types.NewPointer(T), sort: "Int"}
	return env.evalBool(li.E)
}

// createdHere: the pointer is the result of a new/composite literal of the
// enclosing function, possibly read back from a local variable that is only
// ever assigned such results.
func createdHere(v ssa.Value, depth int) bool {
	if depth > 3 {
		return false
	}
	switch x := v.(type) {
	case *ssa.Alloc:
		return true
	case *ssa.UnOp:
		cell, ok := x.X.(*ssa.Alloc)
		if !ok || x.Op != token.MUL || cell.Referrers() == nil {
			return false
		}
		stores := 0
		for _, r := range *cell.Referrers() {
			if st, ok := r.(*ssa.Store); ok && st.Addr == cell {
				stores++
				if !createdHere(st.Val, depth+1) {
					return false
				}
			}
		}
		return stores > 0
	}
	return false
}

// acquireInv: taking the mutex of an object that existed before this function
// started: the protected fields have whatever values the other goroutines left,
// constrained only by the invariant.
func (fr *Frame) acquireInv(mv ssa.Value, m string, st *State, reach string) {
	vc := fr.vc
	li, owner, T := fr.lockInvOf(mv)
	if li == nil {
		return
	}
	// an object created by this very function (new / composite literal) is not
	// yet visible to other goroutines when it is first locked
	pre := "true"
	if fa, ok := mv.(*ssa.FieldAddr); ok && createdHere(fa.X, 0) {
		pre = "false"
	}
	s, _ := structOf(T)
	for _, f := range li.Fields {
		if strings.HasPrefix(f, "#") {
			g := vc.DB.Ghosts["field:"+f[1:]]
			if g == nil {
				vc.warn("lockinv %s: unknown ghost field %s", li.Recv, f)
				continue
			}
			hv := vc.heapVar("GF!"+f[1:], "(Array Int "+ghostSort(g.Sort)+")")
			nv := vc.fresh("interf", ghostSort(g.Sort))
			cur := vc.look(st, hv)
			vc.set(st, hv, vc.hsort[hv], fmt.Sprintf("(store %s %s %s)", cur, owner, sIte(pre, nv, fmt.Sprintf("(select %s %s)", cur, owner))))
			continue
		}
		found := false
		for i := 0; i < s.NumFields(); i++ {
			if s.Field(i).Name() != f {
				continue
			}
			found = true
			a, _ := vc.fieldAddr(T, i, owner)
			if a == nil {
				continue
			}
			nv := vc.fresh("interf", a.Sort)
			vc.assume(reach, vc.rangeFact(nv, s.Field(i).Type()))
			vc.assume(reach, fr.allocFact(st, nv, s.Field(i).Type()))
			vc.write(st, a, sIte(pre, nv, vc.read(st, a)))
		}
		if !found {
			vc.warn("lockinv %s: no field %s", li.Recv, f)
		}
	}
	if pre == "true" {
		vc.assume(reach, fr.lockInvTerm(li, owner, T, st))
	}
	vc.Assumptions["lockinv "+li.Recv+"."+li.Mutex+": fields "+strings.Join(li.Fields, ", ")+" are accessed only with the mutex held; an object created by a new/composite literal of the function under verification is not yet visible to other goroutines when it is locked"] = true
}

func (fr *Frame) releaseInv(site ssa.Instruction, mv ssa.Value, m string, st *State, reach string) {
	vc := fr.vc
	li, owner, T := fr.lockInvOf(mv)
	if li == nil {
		return
	}
	if len(li.Props) > 0 {
		ok := false
		for _, p := range li.Props {
			if p == vc.prop {
				ok = true
			}
		}
		if !ok {
			return
		}
	}
	fr.callSeq["lockinv"]++
	nm := fmt.Sprintf("%s/%s/lockinv[%s.%s]/release#%d", vc.prop, vc.qname, li.Recv, li.Mutex, fr.callSeq["lockinv"])
	vc.oblige("lockinv", nm, li.Src, reach, fr.lockInvTerm(li, owner, T, st), site.Pos(), true)
}

func (fr *Frame) atomicModel(site ssa.Instruction, op string, c *ssa.CallCommon, st *State, reach *string) ([]string, bool) {
	vc := fr.vc
	a, ok := fr.pointerTarget(c.Args[0])
	if !ok {
		return nil, false
	}
	vc.Assumptions["atomics are treated as sequentially consistent single steps; interference between a load and a later store is only covered where a rely/guarantee declaration says so"] = true
	var typ types.Type = a.Typ
	if a.Kind == "field" && vc.DB.Shared[strings.TrimPrefix(a.Var, "F!")] {
		// interference: other goroutines may have changed the field since this
		// goroutine last looked (rely = any value of the type)
		nv := vc.fresh("interf", a.Sort)
		vc.write(st, a, nv)
		if g := fr.sharedInv(a, st, false); g != "" {
			vc.assume(*reach, g)
		}
		if g := fr.sharedInv(a, st, true); g != "" {
			vc.assume(*reach, g)
		}
		vc.Assumptions["shared field "+strings.TrimPrefix(a.Var, "F!")+": arbitrary interference is assumed before every atomic access (rely = true)"] = true
	}
	if typ != nil {
		if _, isInt := basicRange(typ); isInt {
			vc.assume(*reach, vc.rangeFact(vc.read(st, a), typ))
		}
	}
	switch {
	case strings.HasPrefix(op, "Load"):
		v := vc.def("atomic.load", a.Sort, vc.read(st, a))
		if typ != nil {
			vc.assume(*reach, vc.rangeFact(v, typ))
		}
		return []string{v}, true
	case strings.HasPrefix(op, "Store"):
		vc.write(st, a, fr.val(c.Args[1]))
		fr.sharedGuarantee(site, a, st, *reach)
		return nil, true
	case strings.HasPrefix(op, "Add"):
		nv := fmt.Sprintf("(+ %s %s)", vc.read(st, a), fr.val(c.Args[1]))
		if typ != nil {
			nv = vc.wrap(nv, typ)
		}
		v := vc.def("atomic.add", "Int", nv)
		vc.write(st, a, v)
		fr.sharedGuarantee(site, a, st, *reach)
		return []string{v}, true
	case strings.HasPrefix(op, "CompareAndSwap"):
		old, nw := fr.val(c.Args[1]), fr.val(c.Args[2])
		ok := vc.def("cas.ok", "Bool", sEq(vc.read(st, a), old))
		vc.write(st, a, sIte(ok, nw, vc.read(st, a)))
		fr.sharedGuarantee(site, a, st, *reach)
		return []string{ok}, true
	case strings.HasPrefix(op, "Swap"):
		old := vc.def("atomic.swap", a.Sort, vc.read(st, a))
		vc.write(st, a, fr.val(c.Args[1]))
		return []string{old}, true
	}
	return nil, false
}

// sharedInv evaluates the declared invariant of a shared field for the object at a.Ref.
func (fr *Frame) sharedInv(a *Addr, st *State, relyOnly bool) string {
	vc := fr.vc
	si := vc.DB.SharedInv[strings.TrimPrefix(a.Var, "F!")]
	if si == nil {
		return ""
	}
	env := vc.newEnv(&FuncContract{Name: "shared " + si.Recv, Pkg: si.Pkg}, st, st)
	T := env.resolveType("*" + si.Recv[strings.LastIndex(si.Recv, "/")+1:])
	if T == nil {
		T = env.resolveType("*" + si.Recv)
	}
	env.vars["self"] = cval{t: a.Ref, typ: T, sort: "Int"}
	if relyOnly {
		if si.Rely == nil {
			return ""
		}
		vc.Assumptions["rely (unchecked) on "+strings.TrimPrefix(a.Var, "F!")+": "+si.RelySrc] = true
		return env.evalBool(si.Rely)
	}
	if si.E == nil {
		return ""
	}
	return env.evalBool(si.E)
}

func (fr *Frame) sharedGuarantee(site ssa.Instruction, a *Addr, st *State, reach string) {
	vc := fr.vc
	if a.Kind != "field" || !vc.DB.Shared[strings.TrimPrefix(a.Var, "F!")] {
		return
	}
	g := fr.sharedInv(a, st, false)
	if g == "" {
		return
	}
	fr.callSeq["guar"]++
	vc.oblige("guarantee", fmt.Sprintf("%s/%s/shared[%s]/guarantee#%d", vc.prop, vc.qname, strings.TrimPrefix(a.Var, "F!"), fr.callSeq["guar"]), vc.DB.SharedInv[strings.TrimPrefix(a.Var, "F!")].Src, reach, g, site.Pos(), true)
}

// flatFieldVars: the heap arrays of the leaf fields of struct type T; flat is
// false when T has nested aggregate fields (the list then covers all leaves).
func (vc *VC) flatFieldVars(T types.Type) (vars []string, flat bool) {
	flat = true
	sT, ok := structOf(T)
	if !ok {
		return nil, false
	}
	for i := 0; i < sT.NumFields(); i++ {
		a, _ := vc.fieldAddr(T, i, "0")
		if a == nil {
			flat = false
			sub, _ := vc.flatFieldVars(sT.Field(i).Type())
			vars = append(vars, sub...)
			continue
		}
		vars = append(vars, a.Var)
	}
	return vars, flat
}

// eaddrFun: address function of struct elements of slices of T, with inverses.
func (vc *VC) eaddrFun(et types.Type) string {
	fn := sym("eaddr!" + typeKey(et))
	if !vc.declared[fn] {
		vc.declareFun(fn, []string{"Int", "Int"}, "Int")
		vc.declareFun(fn+"!b", []string{"Int"}, "Int")
		vc.declareFun(fn+"!i", []string{"Int"}, "Int")
		vc.emit(fmt.Sprintf("(assert (forall ((b Int) (i Int)) (! (and (= (%s!b (%s b i)) b) (= (%s!i (%s b i)) i) (> (%s b i) 0)) :pattern ((%s b i)))))", fn, fn, fn, fn, fn, fn))
	}
	return fn
}
