package main

import (
	"fmt"
	"go/constant"
	"go/types"
	"strconv"
	"strings"

	"golang.org/x/tools/go/ssa"
)

// cval is the value of a contract expression.
type cval struct {
	t     string     // SMT term
	typ   types.Type // Go type when known
	sort  string     // SMT sort
	addr  *Addr      // location, when the expression denotes one
	isNil bool       // untyped nil
	tuple []cval
	pkg   *types.Package // package qualifier
	ns    string         // "ghost" namespace
	aggr  bool           // term is the address of an aggregate (struct-valued field)
	cell  bool           // a captured variable: its content is read in the state the expression is evaluated in
}

type cenv struct {
	vc      *VC
	k       *FuncContract
	pkg     *types.Package
	vars    map[string]cval
	cur     *State
	old     *State
	results []cval
	frame   *Frame
	callSite bool           // evaluating a callee's contract at a call site: its parameters win over the caller's locals
	loopHdr *ssa.BasicBlock // invariants of this loop: its own φ-nodes win when a name is reused
	lets    map[string]Expr
	errs    *[]string
	depth   int
	inOld   bool // inside old(...): parameters denote entry values, not loop-carried ones
	nowState *State // the current state while evaluating inside old(...), for now(...)
}

func (vc *VC) pkgOf(short string) *types.Package {
	for path, p := range vc.P.ByPath {
		if shortPkg(path) == short {
			return p.Types
		}
	}
	return nil
}

func (vc *VC) newEnv(k *FuncContract, cur, old *State) *cenv {
	e := &cenv{vc: vc, k: k, vars: map[string]cval{}, cur: cur, old: old, lets: map[string]Expr{}, errs: &[]string{}}
	if k != nil {
		e.pkg = vc.pkgOf(k.Pkg)
	}
	if e.pkg == nil {
		e.pkg = vc.pkgOf("erpc")
	}
	return e
}

func (e *cenv) at(st *State, fr *Frame) *cenv {
	c := *e
	c.cur = st
	c.frame = fr
	return &c
}

func (e *cenv) with(name string, v cval) *cenv {
	c := *e
	c.vars = make(map[string]cval, len(e.vars)+1)
	for k, x := range e.vars {
		c.vars[k] = x
	}
	c.vars[name] = v
	return &c
}

func (e *cenv) fail(f string, a ...any) cval {
	msg := fmt.Sprintf(f, a...)
	if e.k != nil {
		msg = e.k.Name + ": " + msg
	}
	*e.errs = append(*e.errs, msg)
	e.vc.ContractErrors = append(e.vc.ContractErrors, msg)
	return cval{t: e.vc.fresh("err", "Int"), sort: "Int"}
}

func (e *cenv) evalLets(k *FuncContract) {
	for _, l := range k.Lets {
		e.lets[l.Name] = l.E
	}
}

func (e *cenv) evalBool(x Expr) string {
	v := e.eval(x)
	if v.sort != "Bool" {
		e.fail("expression %s is not boolean (sort %s)", x, v.sort)
		return "true"
	}
	return v.t
}

func boolv(t string) cval { return cval{t: t, sort: "Bool", typ: types.Typ[types.Bool]} }
func intv(t string) cval  { return cval{t: t, sort: "Int", typ: types.Typ[types.Int]} }

func (e *cenv) eval(x Expr) cval {
	vc := e.vc
	switch x := x.(type) {
	case *EInt:
		n, err := strconv.ParseInt(x.Val, 0, 64)
		if err != nil {
			return intv(x.Val)
		}
		return intv(sInt(n))
	case *EStr:
		return cval{t: vc.strLit(x.Val), sort: "Int", typ: types.Typ[types.String]}
	case *EIdent:
		return e.ident(x.Name)
	case *EOld:
		c := *e
		c.nowState = e.cur
		c.cur = e.old
		c.inOld = true
		return c.eval(x.X)
	case *EUn:
		v := e.eval(x.X)
		switch x.Op {
		case "!":
			return boolv(sNot(v.t))
		case "-":
			return intv("(- " + v.t + ")")
		case "*":
			if pt, ok := derefPtr(v.typ); ok && !isAggregate(pt) {
				return e.readAddr(vc.cellAddr(pt, v.t))
			}
			return e.fail("cannot dereference %s", x.X)
		}
	case *ECond:
		c := e.evalBool(x.C)
		a, b := e.eval(x.A), e.eval(x.B)
		a, b = e.unifyNil(a, b)
		return cval{t: sIte(c, a.t, b.t), sort: a.sort, typ: a.typ}
	case *EBin:
		return e.bin(x)
	case *ESel:
		return e.sel(x)
	case *EIndex:
		return e.index(x)
	case *ESlice:
		s := e.eval(x.X)
		lo, hi := "0", "(s_len "+s.t+")"
		if x.Lo != nil {
			lo = e.eval(x.Lo).t
		}
		if x.Hi != nil {
			hi = e.eval(x.Hi).t
		}
		return cval{t: fmt.Sprintf("(mk_slice (s_base %s) (+ (s_off %s) %s) (- %s %s) (- (s_cap %s) %s))", s.t, s.t, lo, hi, lo, s.t, lo), sort: "Slice", typ: s.typ}
	case *ECall:
		return e.callExpr(x)
	case *EQuant:
		return e.quant(x)
	case *ETypeLit:
		t := e.resolveType(x.T)
		if t == nil {
			return e.fail("unknown type %s", x.T)
		}
		return cval{t: vc.typeID(t), sort: "Int", typ: t}
	}
	return e.fail("cannot evaluate %s", x)
}

func derefPtr(t types.Type) (types.Type, bool) {
	if t == nil {
		return nil, false
	}
	if p, ok := t.Underlying().(*types.Pointer); ok {
		return p.Elem(), true
	}
	return nil, false
}

func (e *cenv) readAddr(a *Addr) cval {
	t := e.vc.read(e.cur, a)
	// heap typing: an integer-typed location holds a value of its type's range
	// (only for closed terms; reads under a quantifier are left alone)
	if a.Typ != nil && !strings.Contains(t, "!q") {
		if rf := e.vc.rangeFact(t, a.Typ); rf != "true" {
			if _, isInt := basicRange(a.Typ); isInt {
				e.vc.typingFact(rf)
			}
		}
		// heap well-formedness: a reference stored in the heap designates an object
		// allocated in that state
		alloc := e.vc.look(e.cur, "$alloc")
		switch a.Typ.Underlying().(type) {
		case *types.Pointer, *types.Map, *types.Chan:
			e.vc.typingFact(fmt.Sprintf("(<= %s %s)", t, alloc))
		case *types.Interface:
			e.vc.typingFact(fmt.Sprintf("(<= (i_val %s) %s)", t, alloc))
		case *types.Slice:
			e.vc.typingFact(fmt.Sprintf("(<= (s_base %s) %s)", t, alloc))
		}
	}
	return cval{t: t, sort: a.Sort, typ: a.Typ, addr: a}
}

func (e *cenv) ident(name string) cval {
	vc := e.vc
	// inside a loop context the loop-carried value (phi) of a reassigned
	// parameter takes precedence; old(...) drops the frame and sees the entry value
	if e.frame != nil && !e.inOld && e.loopHdr != nil {
		for _, in := range e.loopHdr.Instrs {
			phi, ok := in.(*ssa.Phi)
			if !ok {
				break
			}
			if phi.Comment == name {
				if _, bound := e.frame.vals[phi]; bound {
					return cval{t: e.frame.val(phi), typ: phi.Type(), sort: vc.sortOf(phi.Type())}
				}
			}
		}
	}
	if e.frame != nil && !e.inOld && e.loopHdr != nil && e.loopHdr.Parent() == e.frame.fn {
		// a variable assigned more than once before the loop: the definition that
		// reaches the loop header (closest dominating definition, φ-nodes included)
		if v := reachingDef(e.frame.fn, name, e.loopHdr); v != nil {
			if _, bound := e.frame.vals[v]; bound {
				return cval{t: e.frame.val(v), typ: v.Type(), sort: vc.sortOf(v.Type())}
			}
		}
	}
	if _, isParam := e.vars[name]; e.callSite && isParam {
		// fall through to e.vars
	} else if e.frame != nil && !e.inOld {
		if v, ok := e.frame.names[name]; ok {
			if _, isPhi := v.(*ssa.Phi); isPhi {
				if _, bound := e.frame.vals[v]; bound {
					return cval{t: e.frame.val(v), typ: v.Type(), sort: vc.sortOf(v.Type())}
				}
			}
		}
	}
	if v, ok := e.vars[name]; ok {
		if v.cell && v.addr != nil {
			r := e.readAddr(v.addr)
			r.cell = true
			return r
		}
		return v
	}
	switch name {
	case "nil":
		return cval{isNil: true, t: "0", sort: "nil"}
	case "true", "false":
		return boolv(name)
	case "result":
		if len(e.results) == 1 {
			return e.results[0]
		}
		return cval{tuple: e.results, sort: "tuple"}
	case "ghost":
		return cval{ns: "ghost"}
	case "alloc":
		return intv(vc.look(e.cur, "$alloc"))
	}
	if ex, ok := e.lets[name]; ok {
		if e.depth > 20 {
			return e.fail("let %s: recursion", name)
		}
		c := *e
		c.depth++
		return c.eval(ex)
	}
	if e.frame != nil {
		if v, ok := e.frame.names[name]; ok {
			cv := cval{t: e.frame.val(v), typ: v.Type(), sort: vc.sortOf(v.Type())}
			return cv
		}
		// address-taken local (named Alloc): its current content
		if v, ok := e.frame.names["&"+name]; ok {
			if a := e.frame.addrOf(v); a != nil {
				return e.readAddr(a)
			}
			return cval{t: e.frame.val(v), typ: v.Type().(*types.Pointer).Elem(), sort: "Int", aggr: true}
		}
	}
	if e.pkg != nil {
		if obj := e.pkg.Scope().Lookup(name); obj != nil {
			return e.object(obj)
		}
		for _, imp := range e.pkg.Imports() {
			if imp.Name() == name {
				return cval{pkg: imp}
			}
		}
	}
	for path, p := range vc.P.ByPath {
		if shortPkg(path) == name || p.Types.Name() == name {
			return cval{pkg: p.Types}
		}
	}
	if obj := types.Universe.Lookup(name); obj != nil {
		if c, ok := obj.(*types.Const); ok {
			return e.object(c)
		}
	}
	return e.fail("unknown identifier %q", name)
}

func (e *cenv) object(obj types.Object) cval {
	vc := e.vc
	switch o := obj.(type) {
	case *types.Const:
		sort := vc.sortOf(o.Type())
		switch o.Val().Kind() {
		case constant.Int:
			if v, ok := constant.Int64Val(o.Val()); ok {
				return cval{t: sInt(v), sort: "Int", typ: o.Type()}
			}
			return cval{t: o.Val().ExactString(), sort: "Int", typ: o.Type()}
		case constant.Bool:
			return boolv(fmt.Sprint(constant.BoolVal(o.Val())))
		case constant.String:
			return cval{t: vc.strLit(constant.StringVal(o.Val())), sort: "Int", typ: o.Type()}
		}
		return cval{t: vc.fresh("const", sort), sort: sort, typ: o.Type()}
	case *types.Var:
		if isAggregate(o.Type()) {
			return cval{t: vc.globalRef(o.Pkg().Path(), o.Name()), sort: "Int", typ: o.Type(), aggr: true}
		}
		sort := vc.sortOf(o.Type())
		if _, ok := vc.DB.ConstGlobals[shortPkg(o.Pkg().Path())+"."+o.Name()]; ok {
			return cval{t: vc.constGlobalTerm(o.Pkg().Path(), o.Name(), sort), sort: sort, typ: o.Type()}
		}
		hv := vc.heapVar("G!"+shortPkg(o.Pkg().Path())+"."+o.Name(), sort)
		a := &Addr{Kind: "global", Var: hv, Sort: sort, Typ: o.Type()}
		return e.readAddr(a)
	case *types.Func:
		return cval{t: vc.funcConst(shortPkg(o.Pkg().Path()) + "." + o.Name()), sort: "Int", typ: o.Type()}
	case *types.TypeName:
		return cval{t: vc.typeID(o.Type()), sort: "Int", typ: o.Type()}
	}
	return e.fail("unsupported object %s", obj)
}

func (e *cenv) unifyNil(a, b cval) (cval, cval) {
	if a.isNil && !b.isNil {
		a = cval{t: zeroOf(b.sort), sort: b.sort, typ: b.typ}
	}
	if b.isNil && !a.isNil {
		b = cval{t: zeroOf(a.sort), sort: a.sort, typ: a.typ}
	}
	if a.isNil && b.isNil {
		a, b = intv("0"), intv("0")
	}
	return a, b
}

func (e *cenv) bin(x *EBin) cval {
	switch x.Op {
	case "&&":
		return boolv(sAnd(e.evalBool(x.L), e.evalBool(x.R)))
	case "||":
		return boolv(sOr(e.evalBool(x.L), e.evalBool(x.R)))
	case "==>":
		return boolv(sImp(e.evalBool(x.L), e.evalBool(x.R)))
	case "<==>":
		return boolv(sEq(e.evalBool(x.L), e.evalBool(x.R)))
	}
	a, b := e.eval(x.L), e.eval(x.R)
	a, b = e.unifyNil(a, b)
	switch x.Op {
	case "==", "!=":
		if a.sort != b.sort {
			return e.fail("comparison of different sorts in %s (%s vs %s)", x, a.sort, b.sort)
		}
		var eq string
		if a.sort == "Iface" && (b.t == zeroOf("Iface") || a.t == zeroOf("Iface")) {
			o := a
			if a.t == zeroOf("Iface") {
				o = b
			}
			eq = fmt.Sprintf("(= (i_type %s) 0)", o.t)
		} else if a.sort == "Slice" && (b.t == zeroOf("Slice") || a.t == zeroOf("Slice")) {
			o := a
			if a.t == zeroOf("Slice") {
				o = b
			}
			eq = fmt.Sprintf("(= (s_base %s) 0)", o.t)
		} else {
			eq = sEq(a.t, b.t)
		}
		if x.Op == "!=" {
			return boolv(sNot(eq))
		}
		return boolv(eq)
	case "<", "<=", ">", ">=":
		return boolv(fmt.Sprintf("(%s %s %s)", x.Op, a.t, b.t))
	case "+", "-", "*":
		return cval{t: fmt.Sprintf("(%s %s %s)", x.Op, a.t, b.t), sort: "Int", typ: types.Typ[types.Int]}
	case "/":
		return intv(fmt.Sprintf("(div %s %s)", a.t, b.t))
	case "%":
		return intv(fmt.Sprintf("(mod %s %s)", a.t, b.t))
	}
	return e.fail("unknown operator %s", x.Op)
}

// fieldPath resolves x.name for a struct (or pointer to struct) type.
func (e *cenv) lookupField(T types.Type, name string) (path []int, ok bool) {
	pk := e.pkg
	obj, idx, _ := types.LookupFieldOrMethod(T, true, pk, name)
	if obj == nil {
		// unexported field of a type in another package
		base := T
		if p, isP := T.Underlying().(*types.Pointer); isP {
			base = p.Elem()
		}
		if n, isN := base.(*types.Named); isN && n.Obj().Pkg() != nil {
			obj, idx, _ = types.LookupFieldOrMethod(T, true, n.Obj().Pkg(), name)
		}
	}
	if v, isVar := obj.(*types.Var); isVar && v.IsField() {
		return idx, true
	}
	return nil, false
}

func (e *cenv) sel(x *ESel) cval {
	vc := e.vc
	base := e.eval(x.X)
	if base.ns == "ghost" {
		g, ok := vc.DB.Ghosts["global:"+x.Name]
		if !ok {
			return e.fail("unknown ghost global %s", x.Name)
		}
		sort := ghostSort(g.Sort)
		hv := vc.heapVar("Gh!"+x.Name, sort)
		return e.readAddr(&Addr{Kind: "global", Var: hv, Sort: sort})
	}
	if base.pkg != nil {
		obj := base.pkg.Scope().Lookup(x.Name)
		if obj == nil {
			return e.fail("%s.%s not found", base.pkg.Name(), x.Name)
		}
		return e.object(obj)
	}
	if x.Ghost {
		g, ok := vc.DB.Ghosts["field:"+x.Name]
		if !ok {
			return e.fail("unknown ghost field #%s", x.Name)
		}
		sort := ghostSort(g.Sort)
		hv := vc.heapVar("GF!"+x.Name, "(Array Int "+sort+")")
		key := base.t
		if base.sort == "Iface" {
			key = "(i_val " + base.t + ")"
		}
		return e.readAddr(&Addr{Kind: "field", Var: hv, Ref: key, Sort: sort})
	}
	if base.tuple != nil {
		i, err := strconv.Atoi(x.Name)
		if err != nil || i >= len(base.tuple) {
			return e.fail("bad tuple selector %s", x)
		}
		return base.tuple[i]
	}
	if base.typ == nil {
		return e.fail("selector %s on untyped value", x)
	}
	T := base.typ
	ref := base.t
	if p, ok := T.Underlying().(*types.Pointer); ok {
		T = p.Elem()
	} else if !base.aggr {
		if _, isStruct := T.Underlying().(*types.Struct); !isStruct {
			return e.fail("selector %s on non-struct type %s", x, T)
		}
	}
	path, ok := e.lookupField(T, x.Name)
	if !ok {
		return e.fail("no field %s in %s", x.Name, T)
	}
	if _, isPtr := base.typ.Underlying().(*types.Pointer); !isPtr && !base.aggr && len(path) == 1 {
		// a struct VALUE (by-value parameter or result): its fields are the
		// projections the translation uses when the value is stored (vc.projFun)
		st, _ := structOf(T)
		ft := st.Field(path[0]).Type()
		if !isAggregate(ft) {
			return cval{t: fmt.Sprintf("(%s %s)", vc.projFun(T, path[0]), ref), typ: ft, sort: vc.sortOf(ft)}
		}
	}
	for i, idx := range path {
		a, sub := vc.fieldAddr(T, idx, ref)
		st, _ := structOf(T)
		ft := st.Field(idx).Type()
		last := i == len(path)-1
		if a == nil {
			// aggregate by value: continue at its address
			if last {
				return cval{t: sub, typ: ft, sort: "Int", aggr: true}
			}
			T, ref = ft, sub
			continue
		}
		v := e.readAddr(a)
		if last {
			return v
		}
		// embedded pointer
		pt, isPtr := ft.Underlying().(*types.Pointer)
		if !isPtr {
			return e.fail("cannot traverse field %s", st.Field(idx).Name())
		}
		T, ref = pt.Elem(), v.t
	}
	return e.fail("bad selector %s", x)
}

func ghostSort(s string) string {
	switch s {
	case "int", "Int", "ref":
		return "Int"
	case "bool", "Bool":
		return "Bool"
	case "slice":
		return "Slice"
	case "iface":
		return "Iface"
	case "intset":
		return "(Array Int Bool)"
	case "intmap":
		return "(Array Int Int)"
	case "seq":
		return "(Array Int Int)"
	case "ifaceset":
		return "(Array Iface Bool)"
	case "ifacemap":
		return "(Array Iface Iface)"
	case "ifacerow":
		return "(Array Int Iface)"
	case "introw":
		return "(Array Int Int)"
	}
	return s
}

func (e *cenv) index(x *EIndex) cval {
	vc := e.vc
	b := e.eval(x.X)
	i := e.eval(x.I)
	if strings.HasPrefix(b.sort, "(Array ") {
		_, out := arraySorts(b.sort)
		return cval{t: fmt.Sprintf("(select %s %s)", b.t, i.t), sort: out}
	}
	if b.typ == nil {
		return e.fail("index on untyped value %s", x.X)
	}
	switch t := b.typ.Underlying().(type) {
	case *types.Slice:
		if isAggregate(t.Elem()) {
			fn := sym("eaddr!" + typeKey(t.Elem()))
			if !vc.declared[fn] {
				vc.declareFun(fn, []string{"Int", "Int"}, "Int")
				vc.declareFun(fn+"!b", []string{"Int"}, "Int")
				vc.declareFun(fn+"!i", []string{"Int"}, "Int")
				vc.emit(fmt.Sprintf("(assert (forall ((b Int) (i Int)) (! (and (= (%s!b (%s b i)) b) (= (%s!i (%s b i)) i) (> (%s b i) 0)) :pattern ((%s b i)))))", fn, fn, fn, fn, fn, fn))
			}
			return cval{t: fmt.Sprintf("(%s (s_base %s) %s)", fn, b.t, addOff("(s_off "+b.t+")", i.t)), sort: "Int", typ: t.Elem(), aggr: true}
		}
		ev := vc.elemVar(t.Elem())
		a := &Addr{Kind: "elem", Var: ev, Ref: "(s_base " + b.t + ")", Idx: fmt.Sprintf("(+ (s_off %s) %s)", b.t, i.t), Sort: vc.sortOf(t.Elem()), Typ: t.Elem()}
		if strings.Contains(i.t, "!q") {
			// under a quantifier: go through sl_at so that the instantiation trigger
			// is a clean function application instead of an arithmetic term
			fn := vc.slAt(vc.sortOf(t.Elem()))
			return cval{t: fmt.Sprintf("(%s (select %s (s_base %s)) (s_off %s) %s)", fn, vc.look(e.cur, ev), b.t, b.t, i.t), sort: vc.sortOf(t.Elem()), typ: t.Elem(), addr: a}
		}
		return e.readAddr(a)
	case *types.Map:
		has, val, _ := vc.mapVars(t)
		_ = has
		return cval{t: fmt.Sprintf("(select (select %s %s) %s)", vc.look(e.cur, val), b.t, i.t), sort: vc.sortOf(t.Elem()), typ: t.Elem()}
	case *types.Basic:
		return intv(fmt.Sprintf("(str_at %s %s)", b.t, i.t))
	}
	return e.fail("cannot index %s", x.X)
}

func (e *cenv) quant(x *EQuant) cval {
	c := *e
	c.vars = make(map[string]cval, len(e.vars)+len(x.Vars))
	for k, v := range e.vars {
		c.vars[k] = v
	}
	var binders []string
	var ranges []string
	for _, v := range x.Vars {
		e.vc.nsym++
		name := fmt.Sprintf("%s!q%d", sym(v.Name), e.vc.nsym)
		var cv cval
		switch v.Type {
		case "int":
			cv = intv(name)
		case "ref":
			cv = cval{t: name, sort: "Int"}
		case "bool":
			cv = boolv(name)
		case "intset", "intmap", "seq", "ifaceset", "ifacemap", "ifacerow", "introw", "slice", "iface", "string":
			cv = cval{t: name, sort: e.paramSort(v.Type)}
		default:
			t := e.resolveType(v.Type)
			if t == nil {
				return e.fail("unknown type %s in quantifier", v.Type)
			}
			cv = cval{t: name, sort: e.vc.sortOf(t), typ: t}
			if rf := e.vc.rangeFact(name, t); rf != "true" {
				ranges = append(ranges, rf)
			}
		}
		c.vars[v.Name] = cv
		binders = append(binders, fmt.Sprintf("(%s %s)", name, cv.sort))
	}
	// a trigger X[j] over a slice of records contains the sum offset+j, and
	// E-matching does not see through arithmetic (argument order is normalised
	// differently in patterns and ground terms). Quantify over the position
	// instead: j := J - offset(X), so that the trigger is (eaddr base(X) J).
	if len(x.Pats) == 1 {
		if ix, ok := x.Pats[0].(*EIndex); ok {
			if id, ok := ix.I.(*EIdent); ok {
				if cv, bound := c.vars[id.Name]; bound && cv.sort == "Int" && isBoundVar(x, id.Name) && !mentions(ix.X, id.Name) {
					bx := c.eval(ix.X)
					if bx.typ != nil {
						if st, ok := bx.typ.Underlying().(*types.Slice); ok && isAggregate(st.Elem()) {
							cv.t = fmt.Sprintf("(- %s (s_off %s))", cv.t, bx.t)
							c.vars[id.Name] = cv
						}
					}
				}
			}
		}
	}
	body := c.evalBool(x.Body)
	q := "exists"
	if x.Forall {
		q = "forall"
		body = sImp(sAnd(ranges...), body)
	} else {
		body = sAnd(append(ranges, body)...)
	}
	if len(x.Pats) > 0 {
		var ps []string
		for _, p := range x.Pats {
			ps = append(ps, c.eval(p).t)
		}
		body = fmt.Sprintf("(! %s :pattern (%s))", body, strings.Join(ps, " "))
		return boolv(fmt.Sprintf("(%s (%s) %s)", q, strings.Join(binders, " "), body))
	}
	plain := fmt.Sprintf("(%s (%s) %s)", q, strings.Join(binders, " "), body)
	if !x.Forall {
		return boolv(plain)
	}
	// second copy with a neutral trigger per bound variable: a negated goal's
	// skolem constants then instantiate the assumed clauses whatever heap version
	// their terms mention (trig is true everywhere)
	var trigs []string
	allInt := true
	for _, v := range x.Vars {
		cv := c.vars[v.Name]
		if cv.sort != "Int" {
			allInt = false
		}
		trigs = append(trigs, "(trig "+cv.t+")")
	}
	if !allInt || len(x.Vars) > 2 {
		return boolv(plain)
	}
	trigged := fmt.Sprintf("(forall (%s) (! (=> %s %s) :pattern (%s)))", strings.Join(binders, " "), sAnd(trigs...), body, strings.Join(trigs, " "))
	return boolv("(and " + plain + " " + trigged + ")")
}

// resolveType parses a type text like "*message", "[]byte", "*utils.Args".
func (e *cenv) resolveType(s string) types.Type {
	if strings.HasPrefix(s, "*") {
		t := e.resolveType(s[1:])
		if t == nil {
			return nil
		}
		return types.NewPointer(t)
	}
	if strings.HasPrefix(s, "[]") {
		t := e.resolveType(s[2:])
		if t == nil {
			return nil
		}
		return types.NewSlice(t)
	}
	if i := strings.LastIndex(s, "."); i >= 0 {
		pk, name := s[:i], s[i+1:]
		for path, p := range e.vc.P.ByPath {
			if shortPkg(path) == pk || p.Types.Name() == pk || path == pk {
				if obj := p.Types.Scope().Lookup(name); obj != nil {
					return obj.Type()
				}
			}
		}
		// any dependency
		var found types.Type
		seen := map[*types.Package]bool{}
		var walk func(p *types.Package)
		walk = func(p *types.Package) {
			if seen[p] || found != nil {
				return
			}
			seen[p] = true
			if p.Name() == pk || p.Path() == pk {
				if obj := p.Scope().Lookup(name); obj != nil {
					found = obj.Type()
					return
				}
			}
			for _, q := range p.Imports() {
				walk(q)
			}
		}
		for _, p := range e.vc.P.Pkgs {
			walk(p.Types)
		}
		return found
	}
	if obj := types.Universe.Lookup(s); obj != nil {
		if tn, ok := obj.(*types.TypeName); ok {
			return tn.Type()
		}
	}
	if e.pkg != nil {
		if obj := e.pkg.Scope().Lookup(s); obj != nil {
			return obj.Type()
		}
	}
	return nil
}

func (e *cenv) callExpr(x *ECall) cval {
	vc := e.vc
	fnName := ""
	if id, ok := x.Fn.(*EIdent); ok {
		fnName = id.Name
	}
	arg := func(i int) cval { return e.eval(x.Args[i]) }
	need := func(n int) bool {
		if len(x.Args) != n {
			e.fail("%s expects %d argument(s)", fnName, n)
			return false
		}
		return true
	}
	switch fnName {
	case "len":
		if !need(1) {
			return intv("0")
		}
		a := arg(0)
		switch {
		case a.sort == "Slice":
			return intv("(s_len " + a.t + ")")
		case a.typ != nil:
			switch t := a.typ.Underlying().(type) {
			case *types.Basic:
				return intv("(strlen " + a.t + ")")
			case *types.Map:
				_, _, ln := vc.mapVars(t)
				return intv(fmt.Sprintf("(select %s %s)", vc.look(e.cur, ln), a.t))
			}
		}
		return e.fail("len of %s", x.Args[0])
	case "cap":
		if !need(1) {
			return intv("0")
		}
		return intv("(s_cap " + arg(0).t + ")")
	case "base":
		return cval{t: "(s_base " + arg(0).t + ")", sort: "Int"}
	case "off":
		return intv("(s_off " + arg(0).t + ")")
	case "fresh":
		a := arg(0)
		t := a.t
		if a.sort == "Iface" {
			t = "(i_val " + t + ")"
		} else if a.sort == "Slice" {
			t = "(s_base " + t + ")"
		}
		return boolv(fmt.Sprintf("(and (> %s %s) (<= %s %s))", t, vc.look(e.old, "$alloc"), t, vc.look(e.cur, "$alloc")))
	case "allocated":
		a := arg(0)
		t := a.t
		if a.sort == "Iface" {
			t = "(i_val " + t + ")"
		} else if a.sort == "Slice" {
			t = "(s_base " + t + ")"
		}
		return boolv(fmt.Sprintf("(<= %s %s)", t, vc.look(e.cur, "$alloc")))
	case "held":
		hv := vc.heapVar("$held", "(Array Int Bool)")
		return boolv(fmt.Sprintf("(select %s %s)", vc.look(e.cur, hv), arg(0).t))
	case "rheld":
		hv := vc.heapVar("$rheld", "(Array Int Int)")
		return intv(fmt.Sprintf("(select %s %s)", vc.look(e.cur, hv), arg(0).t))
	case "wgcount":
		hv := vc.heapVar("$wg", "(Array Int Int)")
		return intv(fmt.Sprintf("(select %s %s)", vc.look(e.cur, hv), arg(0).t))
	case "waited":
		hv := vc.heapVar("$waited", "(Array Int Bool)")
		return boolv(fmt.Sprintf("(select %s %s)", vc.look(e.cur, hv), arg(0).t))
	case "typeof":
		return intv("(i_type " + arg(0).t + ")")
	case "dyn":
		return cval{t: "(i_val " + arg(0).t + ")", sort: "Int"}
	case "as":
		// as(x, type(*T)): the pointer boxed in interface x, typed
		if !need(2) {
			return intv("0")
		}
		a, t := arg(0), arg(1)
		if a.sort == "Iface" {
			return cval{t: vc.unbox("(i_val "+a.t+")", t.typ), sort: vc.sortOf(t.typ), typ: t.typ}
		}
		return cval{t: a.t, sort: a.sort, typ: t.typ}
	case "implements":
		// implements(x, type(I)): the dynamic type of interface value x implements I (and x is non-nil)
		if !need(2) {
			return boolv("true")
		}
		return boolv(fmt.Sprintf("(and (not (= (i_type %s) 0)) (implements (i_type %s) %s))", arg(0).t, arg(0).t, arg(1).t))
	case "istype":
		if !need(2) {
			return boolv("true")
		}
		return boolv(fmt.Sprintf("(= (i_type %s) %s)", arg(0).t, arg(1).t))
	case "iface":
		// iface(type(*T), p): the interface value boxing p
		if !need(2) {
			return intv("0")
		}
		t, p := arg(0), arg(1)
		return cval{t: fmt.Sprintf("(mk_iface %s %s)", t.t, vc.box(p.t, t.typ)), sort: "Iface"}
	case "mapHas":
		m := arg(0)
		mt, ok := m.typ.Underlying().(*types.Map)
		if !ok {
			return e.fail("mapHas on non-map")
		}
		has, _, _ := vc.mapVars(mt)
		return boolv(fmt.Sprintf("(select (select %s %s) %s)", vc.look(e.cur, has), m.t, arg(1).t))
	case "ite":
		c := e.evalBool(x.Args[0])
		a, b := arg(1), arg(2)
		a, b = e.unifyNil(a, b)
		return cval{t: sIte(c, a.t, b.t), sort: a.sort, typ: a.typ}
	case "addr":
		a := arg(0)
		if a.aggr {
			return cval{t: a.t, sort: "Int"}
		}
		if a.addr != nil && a.addr.Kind == "field" {
			return cval{t: a.addr.Ref, sort: "Int"}
		}
		return e.fail("addr(%s): not a location", x.Args[0])
	case "now":
		// now(e) inside old(...): evaluate e in the current state again
		if !need(1) {
			return intv("0")
		}
		if e.nowState == nil {
			return arg(0)
		}
		c := *e
		c.cur = e.nowState
		c.inOld = false
		c.nowState = nil
		return c.eval(x.Args[0])
	case "rowof":
		// the element row (index -> element) of a slice's backing array in the current state
		if !need(1) {
			return intv("0")
		}
		a := arg(0)
		sl, ok := a.typ.Underlying().(*types.Slice)
		if a.typ == nil || !ok || isAggregate(sl.Elem()) {
			return e.fail("rowof(%s): not a slice of scalars", x.Args[0])
		}
		ev := vc.elemVar(sl.Elem())
		return cval{t: fmt.Sprintf("(select %s (s_base %s))", vc.look(e.cur, ev), a.t), sort: fmt.Sprintf("(Array Int %s)", vc.sortOf(sl.Elem()))}
	case "view":
		// abstract content of a byte slice in the current state
		if !need(1) {
			return intv("0")
		}
		a := arg(0)
		if a.sort != "Slice" {
			return e.fail("view(%s): not a slice", x.Args[0])
		}
		return cval{t: vc.viewOf(e.cur, a.t), sort: "Int"}
	case "cat":
		if !need(2) {
			return intv("0")
		}
		return cval{t: fmt.Sprintf("(seq_cat %s %s)", arg(0).t, arg(1).t), sort: "Int"}
	case "sub":
		if !need(3) {
			return intv("0")
		}
		return cval{t: fmt.Sprintf("(seq_sub %s %s %s)", arg(0).t, arg(1).t, arg(2).t), sort: "Int"}
	case "seqlen":
		if !need(1) {
			return intv("0")
		}
		return intv(fmt.Sprintf("(seq_len %s)", arg(0).t))
	case "emptyseq":
		return cval{t: "seq_empty", sort: "Int"}
	case "store":
		// store(a, i, v): functional update of an array-sorted (ghost) value
		if !need(3) {
			return intv("0")
		}
		a, i, v := arg(0), arg(1), arg(2)
		if v.isNil {
			_, out := arraySorts(a.sort)
			v = cval{t: zeroOf(out), sort: out}
		}
		return cval{t: fmt.Sprintf("(store %s %s %s)", a.t, i.t, v.t), sort: a.sort}
	case "assigned":
		// assigned(x.f): a store to the location x.f was executed since function entry
		if !need(1) {
			return boolv("true")
		}
		a := arg(0)
		if a.addr == nil || (a.addr.Kind != "field" && a.addr.Kind != "cell") {
			return e.fail("assigned(%s): not a field location", x.Args[0])
		}
		w := vc.heapVar("W!"+a.addr.Var, "(Array Int Bool)")
		return boolv(fmt.Sprintf("(select %s %s)", vc.look(e.cur, w), a.addr.Ref))
	case "unchanged":
		// every heap variable known to this VC (two-pass generation registers all
		// of them up front) has its old value
		var eqs []string
		for _, v := range sortedKeys(vc.hsort) {
			if strings.HasPrefix(v, "$") || strings.HasPrefix(v, "W!") {
				continue
			}
			eqs = append(eqs, sEq(vc.look(e.cur, v), vc.look(e.old, v)))
		}
		return boolv(sAnd(eqs...))
	case "onlyLockAdded":
		// the mutexes held are those of the old state plus the given one
		hv := vc.heapVar("$held", "(Array Int Bool)")
		return boolv(sEq(vc.look(e.cur, hv), fmt.Sprintf("(store %s %s true)", vc.look(e.old, hv), arg(0).t)))
	case "sameLocks":
		// the set of mutexes held is what it was in the old state
		hv := vc.heapVar("$held", "(Array Int Bool)")
		return boolv(sEq(vc.look(e.cur, hv), vc.look(e.old, hv)))
	case "chanClosed":
		hv := vc.heapVar("GF!chanClosed", "(Array Int Bool)")
		return boolv(fmt.Sprintf("(select %s %s)", vc.look(e.cur, hv), arg(0).t))
	case "chanSent":
		hv := vc.heapVar("GF!chanSent", "(Array Int Int)")
		return intv(fmt.Sprintf("(select %s %s)", vc.look(e.cur, hv), arg(0).t))
	}
	if sf, ok := vc.DB.Specs[fnName]; ok {
		if len(sf.Params) != len(x.Args) {
			return e.fail("spec fn %s expects %d arguments", fnName, len(sf.Params))
		}
		var args []cval
		for i := range x.Args {
			a := arg(i)
			if a.isNil {
				ps := e.paramSort(sf.Params[i].Type)
				a = cval{t: zeroOf(ps), sort: ps}
			}
			args = append(args, a)
		}
		if sf.Body != nil {
			if e.depth > 12 {
				return e.fail("spec fn %s: expansion too deep", fnName)
			}
			c := *e
			c.depth++
			c.vars = map[string]cval{}
			// spec function bodies see only their parameters (plus heap at the use site)
			for i, p := range sf.Params {
				a := args[i]
				if a.typ == nil || p.Type != "int" && p.Type != "ref" && p.Type != "bool" {
					if t := e.resolveType(p.Type); t != nil {
						a.typ = t
					}
				}
				c.vars[p.Name] = a
			}
			c.lets = map[string]Expr{}
			c.frame = nil
			if pk := vc.pkgOf(sf.Pkg); pk != nil {
				c.pkg = pk
			}
			return c.eval(sf.Body)
		}
		var sorts, ts []string
		for i, p := range sf.Params {
			sorts = append(sorts, e.paramSort(p.Type))
			ts = append(ts, args[i].t)
		}
		ret := e.paramSort(sf.Ret)
		fn := vc.declareFun(sym("spec!"+fnName), sorts, ret)
		cv := cval{t: sApp(fn, ts...), sort: ret}
		if t := e.resolveType(sf.Ret); t != nil && sf.Ret != "int" && sf.Ret != "bool" {
			cv.typ = t
		}
		if ret == "Int" && cv.typ == nil {
			cv.typ = types.Typ[types.Int]
		}
		return cv
	}
	return e.fail("unknown function %s in contract", x.Fn)
}

func (e *cenv) paramSort(t string) string {
	switch t {
	case "int", "ref", "string":
		return "Int"
	case "bool":
		return "Bool"
	case "slice":
		return "Slice"
	case "iface":
		return "Iface"
	case "intset":
		return "(Array Int Bool)"
	case "intmap", "seq":
		return "(Array Int Int)"
	case "ifaceset":
		return "(Array Iface Bool)"
	case "ifacemap":
		return "(Array Iface Iface)"
	case "ifacerow":
		return "(Array Int Iface)"
	case "introw":
		return "(Array Int Int)"
	}
	if strings.HasPrefix(t, "(") {
		return t
	}
	if ty := e.resolveType(t); ty != nil {
		return e.vc.sortOf(ty)
	}
	return "Int"
}

// ---------------------------------------------------------------------------
// modifies

// loc is a set of heap locations: one variable, optionally restricted to a key.
type loc struct {
	Var  string
	Ref  string // "" = the whole variable
	Kind string // field cell elemrow global
}

func (e *cenv) locsOf(m Expr) []loc {
	vc := e.vc
	switch x := m.(type) {
	case *ECall:
		id, _ := x.Fn.(*EIdent)
		if id == nil || len(x.Args) < 1 {
			break
		}
		if fsd, ok := vc.DB.FrameSets[id.Name]; ok {
			if len(fsd.Params) != len(x.Args) {
				e.fail("frameset %s expects %d arguments", id.Name, len(fsd.Params))
				return nil
			}
			c := *e
			c.vars = map[string]cval{}
			for k, v := range e.vars {
				c.vars[k] = v
			}
			for i, p := range fsd.Params {
				a := e.eval(x.Args[i])
				if t := e.resolveType(p.Type); t != nil {
					if a.sort == "Iface" && c.vc.sortOf(t) != "Iface" {
						a = cval{t: vc.unbox("(i_val "+a.t+")", t), sort: vc.sortOf(t), typ: t}
					} else {
						a.typ = t
					}
				}
				c.vars[p.Name] = a
			}
			c.lets = map[string]Expr{}
			if pk := vc.pkgOf(fsd.Pkg); pk != nil {
				c.pkg = pk
			}
			var out []loc
			for _, it := range fsd.Items {
				out = append(out, c.locsOf(it)...)
			}
			return out
		}
		switch id.Name {
		case "elems":
			s := e.eval(x.Args[0])
			if s.typ == nil {
				e.fail("elems(%s): untyped", x.Args[0])
				return nil
			}
			sl, ok := s.typ.Underlying().(*types.Slice)
			if !ok {
				e.fail("elems(%s): not a slice", x.Args[0])
				return nil
			}
			if isAggregate(sl.Elem()) {
				// elements are structs: all their fields (whole arrays; coarse)
				var out []loc
				vc.forEachField(sl.Elem(), func(a *Addr) { out = append(out, loc{Var: a.Var, Kind: "field"}) })
				return out
			}
			return []loc{{Var: vc.elemVar(sl.Elem()), Ref: "(s_base " + s.t + ")", Kind: "elemrow"}}
		case "fields":
			p := e.eval(x.Args[0])
			T, ok := derefPtr(p.typ)
			if p.aggr {
				T, ok = p.typ, true
			}
			if !ok {
				e.fail("fields(%s): not a pointer to struct", x.Args[0])
				return nil
			}
			var out []loc
			vc.forEachFieldAt(T, p.t, func(a *Addr) { out = append(out, loc{Var: a.Var, Ref: a.Ref, Kind: "field"}) })
			return out
		case "mapof":
			mv := e.eval(x.Args[0])
			mt, ok := mv.typ.Underlying().(*types.Map)
			if !ok {
				e.fail("mapof(%s): not a map", x.Args[0])
				return nil
			}
			h, v, l := vc.mapVars(mt)
			return []loc{{Var: h, Ref: mv.t, Kind: "field"}, {Var: v, Ref: mv.t, Kind: "field"}, {Var: l, Ref: mv.t, Kind: "field"}}
		case "allof":
			// allof(type(T)) – every field array of T (any receiver)
			t := e.eval(x.Args[0])
			var out []loc
			vc.forEachField(t.typ, func(a *Addr) { out = append(out, loc{Var: a.Var, Kind: "field"}) })
			// ... and its ghost fields
			bt := t.typ
			if p, ok := bt.(*types.Pointer); ok {
				bt = p.Elem()
			}
			for _, key := range sortedKeys(vc.DB.Ghosts) {
				g := vc.DB.Ghosts[key]
				if !g.Global && g.Recv == typeKey(bt) && g.Name != "chanSent" && g.Name != "chanClosed" {
					out = append(out, loc{Var: vc.heapVar("GF!"+g.Name, "(Array Int "+ghostSort(g.Sort)+")"), Kind: "field"})
				}
			}
			return out
		case "allelems":
			t := e.eval(x.Args[0])
			if t.typ == nil {
				return nil
			}
			if isAggregate(t.typ) {
				out := []loc{{Var: vc.elemVar(t.typ), Kind: "global"}}
				vc.forEachField(t.typ, func(a *Addr) { out = append(out, loc{Var: a.Var, Kind: "field"}) })
				return out
			}
			return []loc{{Var: vc.elemVar(t.typ), Kind: "global"}}
		case "lockset":
			return []loc{{Var: vc.heapVar("$held", "(Array Int Bool)"), Kind: "global"}}
		}
	case *EIdent:
		if x.Name == "lockset" {
			return []loc{{Var: vc.heapVar("$held", "(Array Int Bool)"), Kind: "global"}}
		}
		if x.Name == "mapviews" {
			// the ghost views of goutil.Map objects
			return []loc{{Var: vc.heapVar("GF!gkeys", "(Array Int (Array Iface Bool))"), Kind: "global"}, {Var: vc.heapVar("GF!gvals", "(Array Int (Array Iface Iface))"), Kind: "global"}}
		}
		if x.Name == "channels" {
			// the channel monitors (sends per channel, closed flag)
			return []loc{{Var: vc.heapVar("GF!chanSent", "(Array Int Int)"), Kind: "global"}, {Var: vc.heapVar("GF!chanClosed", "(Array Int Bool)"), Kind: "global"}}
		}
		if x.Name == "waitgroups" {
			return []loc{{Var: vc.heapVar("$wg", "(Array Int Int)"), Kind: "global"}, {Var: vc.heapVar("$waited", "(Array Int Bool)"), Kind: "global"}}
		}
	}
	v := e.eval(m)
	if v.aggr && v.typ != nil {
		var out []loc
		vc.forEachFieldAt(v.typ, v.t, func(a *Addr) { out = append(out, loc{Var: a.Var, Ref: a.Ref, Kind: "field"}) })
		return out
	}
	if v.addr == nil {
		e.fail("modifies item %s is not a location", m)
		return nil
	}
	switch v.addr.Kind {
	case "field", "cell":
		return []loc{{Var: v.addr.Var, Ref: v.addr.Ref, Kind: "field"}}
	case "global":
		return []loc{{Var: v.addr.Var, Kind: "global"}}
	case "elem":
		return []loc{{Var: v.addr.Var, Ref: v.addr.Ref, Kind: "elemrow"}}
	}
	return nil
}

func (vc *VC) forEachField(T types.Type, f func(*Addr)) { vc.forEachFieldAt(T, "0", f) }

func (vc *VC) forEachFieldAt(T types.Type, ref string, f func(*Addr)) {
	s, ok := structOf(T)
	if !ok {
		return
	}
	for i := 0; i < s.NumFields(); i++ {
		a, sub := vc.fieldAddr(T, i, ref)
		if a != nil {
			f(a)
		} else {
			vc.forEachFieldAt(s.Field(i).Type(), sub, f)
		}
	}
}

func (e *cenv) havocLoc(m Expr, st *State) {
	vc := e.vc
	for _, l := range e.locsOf(m) {
		sort := vc.hsort[l.Var]
		cur := vc.look(st, l.Var)
		if l.Ref == "" {
			vc.havocVar(st, l.Var)
			continue
		}
		_, out := arraySorts(sort)
		nv := vc.fresh("hv", out)
		vc.set(st, l.Var, sort, fmt.Sprintf("(store %s %s %s)", cur, l.Ref, nv))
		if w := "W!" + l.Var; vc.hsort[w] != "" {
			vc.set(st, w, vc.hsort[w], fmt.Sprintf("(store %s %s %s)", vc.look(st, w), l.Ref, vc.fresh("hw", "Bool")))
		}
	}
}

// modVarsOfExpr: heap variables a modifies item may touch (for summaries).
func (vc *VC) modVarsOfExpr(m Expr, fn *ssa.Function, k *FuncContract, sigs ...*types.Signature) (out []string, ok bool) {
	env := vc.newEnv(k, vc.entry, vc.entry)
	errs := []string{}
	env.errs = &errs
	saved := vc.ContractErrors
	names, typs := contractParamList(k, fn, sigs...)
	for i, n := range names {
		cv := cval{t: "0", typ: typs[i], sort: vc.sortOf(typs[i])}
		if cv.sort != "Int" {
			cv.t = zeroOf(cv.sort)
		}
		env.vars[n] = cv
		env.vars[fmt.Sprintf("p%d", i)] = cv
		if i == 0 {
			env.vars["self"] = cv
		}
	}
	dummy := func(n string, t types.Type) {
		if _, have := env.vars[n]; have {
			return
		}
		cv := cval{t: "0", typ: t, sort: vc.sortOf(t)}
		if cv.sort != "Int" {
			cv.t = zeroOf(cv.sort)
		}
		env.vars[n] = cv
	}
	// captured variables of a function literal, by name
	if fn != nil {
		for _, fv := range fn.FreeVars {
			if pt, isPtr := fv.Type().Underlying().(*types.Pointer); isPtr && !isAggregate(pt.Elem()) {
				dummy(fv.Name(), pt.Elem())
			} else {
				dummy(fv.Name(), fv.Type())
			}
		}
	}
	// a contract scoped to a caller ("f in g") may mention g's named locals
	if k != nil {
		if i := strings.Index(k.Name, " in "); i > 0 {
			if caller := vc.P.Funcs[k.Name[i+4:]]; caller != nil {
				for _, pp := range caller.Params {
					dummy(pp.Name(), pp.Type())
				}
				for _, l := range caller.Locals {
					if l.Comment != "" {
						dummy(l.Comment, l.Type().Underlying().(*types.Pointer).Elem())
					}
				}
				for _, b := range caller.Blocks {
					for _, in := range b.Instrs {
						if d, isd := in.(*ssa.DebugRef); isd && !d.IsAddr {
							if obj, isv := d.Object().(*types.Var); isv && !obj.IsField() {
								dummy(obj.Name(), obj.Type())
							}
						}
					}
				}
			}
		}
	}
	ok = true
	if k != nil {
		env.evalLets(k)
	}
	// dummy results, so that items such as fields(result) resolve to their variables
	var rsig *types.Signature
	if fn != nil {
		rsig = fn.Signature
	} else if len(sigs) > 0 {
		rsig = sigs[0]
	}
	if rsig != nil {
		for i := 0; i < rsig.Results().Len(); i++ {
			t := rsig.Results().At(i).Type()
			cv := cval{t: "0", typ: t, sort: vc.sortOf(t)}
			if cv.sort != "Int" {
				cv.t = zeroOf(cv.sort)
			}
			env.results = append(env.results, cv)
		}
	}
	func() {
		defer func() {
			if recover() != nil {
				ok = false
			}
		}()
		for _, l := range env.locsOf(m) {
			out = append(out, l.Var)
		}
	}()
	if len(vc.ContractErrors) > len(saved) {
		ok = false
	}
	vc.ContractErrors = saved
	return
}

// applyGhostSet performs "ghostset loc = expr" on state st (ghost locations only).
func (e *cenv) applyGhostSet(gs *GhostSet, st *State) {
	vc := e.vc
	val := e.eval(gs.Val)
	locs := e.locsOf(gs.Loc)
	if len(locs) != 1 {
		e.fail("ghostset %s: not a single ghost location", gs.Loc)
		return
	}
	l := locs[0]
	if !strings.HasPrefix(l.Var, "GF!") && !strings.HasPrefix(l.Var, "Gh!") {
		e.fail("ghostset %s: only ghost fields / ghost globals may be assigned by a contract", gs.Loc)
		return
	}
	cur := vc.look(st, l.Var)
	if l.Ref == "" {
		vc.set(st, l.Var, vc.hsort[l.Var], val.t)
		return
	}
	vc.set(st, l.Var, vc.hsort[l.Var], fmt.Sprintf("(store %s %s %s)", cur, l.Ref, val.t))
}

// reachingDef: the SSA value of source variable `name` at the entry of block at:
// the closest definition (debug ref or named φ) that dominates it. nil when the
// variable has no definition other than a parameter.
func reachingDef(fn *ssa.Function, name string, at *ssa.BasicBlock) ssa.Value {
	var best ssa.Value
	var bestBlock *ssa.BasicBlock
	bestIdx := -1
	for _, b := range fn.Blocks {
		if b == at || !b.Dominates(at) {
			continue
		}
		for i, in := range b.Instrs {
			var v ssa.Value
			switch x := in.(type) {
			case *ssa.DebugRef:
				if x.IsAddr {
					continue
				}
				if obj, ok := x.Object().(*types.Var); ok && !obj.IsField() && obj.Name() == name {
					if _, isParam := x.X.(*ssa.Parameter); !isParam {
						v = x.X
					}
				}
			case *ssa.Phi:
				if x.Comment == name {
					v = x
				}
			}
			if v == nil {
				continue
			}
			if best == nil || bestBlock.Dominates(b) && (bestBlock != b || i > bestIdx) {
				best, bestBlock, bestIdx = v, b, i
			}
		}
	}
	return best
}

// addOff: offset + index, seeing through the position substitution of quant().
func addOff(off, idx string) string {
	if strings.HasPrefix(idx, "(- ") && strings.HasSuffix(idx, " "+off+")") {
		return idx[3 : len(idx)-len(off)-2]
	}
	return fmt.Sprintf("(+ %s %s)", off, idx)
}

func isBoundVar(x *EQuant, name string) bool {
	for _, v := range x.Vars {
		if v.Name == name {
			return true
		}
	}
	return false
}

// mentions: the expression text refers to identifier name.
func mentions(e Expr, name string) bool {
	for _, tok := range strings.FieldsFunc(e.String(), func(r rune) bool {
		return !(r == '_' || r >= '0' && r <= '9' || r >= 'a' && r <= 'z' || r >= 'A' && r <= 'Z')
	}) {
		if tok == name {
			return true
		}
	}
	return false
}
