package main

import (
	"fmt"
	"go/token"
	"go/types"
	"math/big"
	"sort"
	"strings"

	"golang.org/x/tools/go/ssa"
)

type closureVal struct {
	fn       *ssa.Function
	bindings []ssa.Value
	frame    *Frame // frame in which the bindings are evaluated
}

type retRec struct {
	cond string
	st   *State
	vals []string
	clos []*closureVal
	pos  token.Pos
}

type edgeRec struct {
	from *ssa.BasicBlock
	cond string
	st   *State
}

type Frame struct {
	lastExitClos []*closureVal
	deferPanics  []mergeIn // panics raised inside deferred calls
	nonNil       map[ssa.Value]*ssa.BasicBlock // pointers already dereferenced (block of the first dereference)
	spawning     bool
	vc        *VC
	fn        *ssa.Function
	id        string
	parent    *Frame
	depth     int
	vals      map[ssa.Value]string
	tuples    map[ssa.Value][]string
	addrs     map[ssa.Value]*Addr
	clos      map[ssa.Value]*closureVal
	edges     map[*ssa.BasicBlock][]edgeRec // incoming forward edges, recorded by predecessors
	rets      []retRec
	panics    []mergeIn
	defers    []*ssa.Defer
	loops     map[*ssa.BasicBlock]*loopInfo
	names     map[string]ssa.Value // source-level local names that denote exactly one SSA value
	spec      *FuncContract        // contract providing loop specs (top frame)
	env       *cenv                // contract environment of the top frame
	callSeq   map[string]int
	reachEnd  map[*ssa.BasicBlock]string
	panicking bool
}

type loopInfo struct {
	ordinal int
	header  *ssa.BasicBlock
	blocks  map[*ssa.BasicBlock]bool
	phis    []*ssa.Phi
	st      *State // state at the header (after havoc)
	reach   string
	dec0    string
}

var frameSeq int

func (vc *VC) newFrame(fn *ssa.Function, parent *Frame) *Frame {
	frameSeq++
	fr := &Frame{vc: vc, fn: fn, parent: parent, vals: map[ssa.Value]string{}, tuples: map[ssa.Value][]string{},
		addrs: map[ssa.Value]*Addr{}, clos: map[ssa.Value]*closureVal{}, edges: map[*ssa.BasicBlock][]edgeRec{},
		loops: map[*ssa.BasicBlock]*loopInfo{}, names: map[string]ssa.Value{}, callSeq: map[string]int{}, reachEnd: map[*ssa.BasicBlock]string{}}
	if parent != nil {
		fr.depth = parent.depth + 1
		fr.id = fmt.Sprintf("i%d.", frameSeq)
	}
	return fr
}

func (fr *Frame) name(v ssa.Value) string { return fr.id + v.Name() }

// val returns the SMT term of an SSA value.
func (fr *Frame) val(v ssa.Value) string {
	if t, ok := fr.vals[v]; ok {
		return t
	}
	vc := fr.vc
	switch x := v.(type) {
	case *ssa.Const:
		return vc.constTerm(x)
	case *ssa.Global:
		a := fr.globalAddr(x)
		if a == nil {
			return vc.globalRef(x.Pkg.Pkg.Path(), x.Name())
		}
		return vc.globalRef(x.Pkg.Pkg.Path(), "&"+x.Name())
	case *ssa.Function:
		fr.clos[v] = &closureVal{fn: x}
		return vc.funcConst(QualName(x))
	case *ssa.Builtin:
		return "0"
	}
	// unknown (e.g. value from a block never reached in the cut DAG)
	t := vc.fresh("undef."+fr.name(v), vc.sortOf(v.Type()))
	fr.vals[v] = t
	return t
}

func (fr *Frame) globalAddr(g *ssa.Global) *Addr {
	vc := fr.vc
	elem := g.Type().(*types.Pointer).Elem()
	if isAggregate(elem) {
		return nil
	}
	if _, ok := vc.DB.ConstGlobals[shortPkg(g.Pkg.Pkg.Path())+"."+g.Name()]; ok && fr.fn.Name() != "init" {
		// assigned once in init with a fresh object: a constant address
		return &Addr{Kind: "const", Ref: vc.constGlobalTerm(g.Pkg.Pkg.Path(), g.Name(), vc.sortOf(elem)), Sort: vc.sortOf(elem), Typ: elem}
	}
	sort := vc.sortOf(elem)
	hv := vc.heapVar("G!"+shortPkg(g.Pkg.Pkg.Path())+"."+g.Name(), sort)
	return &Addr{Kind: "global", Var: hv, Sort: sort, Typ: elem}
}

func (fr *Frame) addrOf(v ssa.Value) *Addr {
	if a, ok := fr.addrs[v]; ok {
		return a
	}
	if g, ok := v.(*ssa.Global); ok {
		return fr.globalAddr(g)
	}
	return nil
}

// pointerTarget resolves the location a pointer value designates.
func (fr *Frame) pointerTarget(p ssa.Value) (*Addr, bool) {
	if a := fr.addrOf(p); a != nil {
		return a, true
	}
	pt, ok := p.Type().Underlying().(*types.Pointer)
	if !ok {
		return nil, false
	}
	if isAggregate(pt.Elem()) {
		return nil, false
	}
	return fr.vc.cellAddr(pt.Elem(), fr.val(p)), true
}

// ---------------------------------------------------------------------------

func forwardOrder(fn *ssa.Function) ([]*ssa.BasicBlock, map[[2]int]bool) {
	back := map[[2]int]bool{}
	state := map[*ssa.BasicBlock]int{}
	var post []*ssa.BasicBlock
	var dfs func(b *ssa.BasicBlock)
	dfs = func(b *ssa.BasicBlock) {
		state[b] = 1
		for _, s := range b.Succs {
			switch state[s] {
			case 0:
				dfs(s)
			case 1:
				back[[2]int{b.Index, s.Index}] = true
			}
		}
		state[b] = 2
		post = append(post, b)
	}
	if len(fn.Blocks) > 0 {
		dfs(fn.Blocks[0])
	}
	if fn.Recover != nil && state[fn.Recover] == 0 {
		dfs(fn.Recover)
	}
	for i, j := 0, len(post)-1; i < j; i, j = i+1, j-1 {
		post[i], post[j] = post[j], post[i]
	}
	return post, back
}

func (fr *Frame) findLoops(order []*ssa.BasicBlock, back map[[2]int]bool) {
	fn := fr.fn
	var headers []*ssa.BasicBlock
	seen := map[*ssa.BasicBlock]bool{}
	for e := range back {
		h := fn.Blocks[e[1]]
		if !seen[h] {
			seen[h] = true
			headers = append(headers, h)
		}
	}
	sort.Slice(headers, func(i, j int) bool { return headers[i].Index < headers[j].Index })
	for k, h := range headers {
		li := &loopInfo{ordinal: k, header: h, blocks: map[*ssa.BasicBlock]bool{h: true}}
		// natural loop: all blocks that reach a back-edge source without passing h
		var stack []*ssa.BasicBlock
		for e := range back {
			if e[1] == h.Index {
				t := fn.Blocks[e[0]]
				if !li.blocks[t] {
					li.blocks[t] = true
					stack = append(stack, t)
				}
			}
		}
		for len(stack) > 0 {
			b := stack[len(stack)-1]
			stack = stack[:len(stack)-1]
			for _, p := range b.Preds {
				if !li.blocks[p] {
					li.blocks[p] = true
					stack = append(stack, p)
				}
			}
		}
		for _, in := range h.Instrs {
			if phi, ok := in.(*ssa.Phi); ok {
				li.phis = append(li.phis, phi)
			}
		}
		fr.loops[h] = li
	}
}

func hasLoops(fn *ssa.Function) bool {
	_, back := forwardOrder(fn)
	return len(back) > 0
}

type exitInfo struct {
	reach string
	st    *State
	vals  []string
	clos  []*closureVal // per result: the function literal returned, when every return site returns the same one
}

// run encodes the body of fr.fn starting in state st under condition reach.
func (fr *Frame) run(reach string, st *State) *exitInfo {
	vc := fr.vc
	fn := fr.fn
	if len(fn.Blocks) == 0 {
		return nil
	}
	order, back := forwardOrder(fn)
	fr.findLoops(order, back)
	fr.collectNames()
	// no deferred call is registered when the function starts
	for _, b := range fn.Blocks {
		for _, in := range b.Instrs {
			if d, ok := in.(*ssa.Defer); ok {
				st.H[fr.deferFlag(d)] = "false"
			}
		}
	}
	fr.edges[fn.Blocks[0]] = []edgeRec{{nil, reach, st}}
	for _, b := range order {
		if b == fn.Recover {
			continue
		}
		ins := fr.edges[b]
		if len(ins) == 0 {
			continue // unreachable in the cut DAG
		}
		var breach string
		var bst *State
		li := fr.loops[b]
		// merge forward edges
		var conds []string
		var ms []mergeIn
		for _, e := range ins {
			conds = append(conds, e.cond)
			ms = append(ms, mergeIn{e.cond, e.st})
		}
		breach = vc.def(fmt.Sprintf("reach.%sb%d", fr.id, b.Index), "Bool", sOr(conds...))
		bst = vc.merge(ms)
		// phis
		pre := map[*ssa.Phi]string{}
		for _, in := range b.Instrs {
			phi, ok := in.(*ssa.Phi)
			if !ok {
				break
			}
			sortp := vc.sortOf(phi.Type())
			var same = true
			var first string
			var pairs [][2]string
			for _, e := range ins {
				idx := predIndex(b, e.from)
				if idx < 0 {
					continue
				}
				t := fr.val(phi.Edges[idx])
				if first == "" {
					first = t
				} else if t != first {
					same = false
				}
				pairs = append(pairs, [2]string{e.cond, t})
			}
			var pv string
			if same && first != "" {
				pv = first
			} else {
				if vc.iteMerge() {
					pv = vc.def(fr.name(phi), sortp, iteChain(pairs))
				} else {
					pv = vc.fresh(fr.name(phi), sortp)
					for _, p := range pairs {
						vc.emit("(assert " + sImp(p[0], sEq(pv, p[1])) + ")")
					}
				}
			}
			pre[phi] = pv
			fr.mergePhiAddr(phi, b, ins)
			fr.mergePhiClo(phi, b, ins)
		}
		if li != nil {
			fr.enterLoop(li, breach, bst, pre)
			bst = li.st.clone()
			breach = li.reach
		} else {
			for phi, pv := range pre {
				fr.vals[phi] = pv
			}
		}
		cur := breach
		for _, in := range b.Instrs {
			if _, ok := in.(*ssa.Phi); ok {
				continue
			}
			cur = fr.step(in, bst, cur, back)
		}
		fr.reachEnd[b] = cur
	}
	// merge returns
	if len(fr.rets) == 0 {
		return nil
	}
	var conds []string
	var ms []mergeIn
	for _, r := range fr.rets {
		conds = append(conds, r.cond)
		ms = append(ms, mergeIn{r.cond, r.st})
	}
	ex := &exitInfo{reach: vc.def("exit."+fr.id, "Bool", sOr(conds...)), st: vc.merge(ms)}
	nres := fn.Signature.Results().Len()
	for i := 0; i < nres; i++ {
		first := fr.rets[0].vals[i]
		same := true
		for _, r := range fr.rets[1:] {
			if r.vals[i] != first {
				same = false
			}
		}
		var cl *closureVal
		if len(fr.rets) == 1 {
			cl = fr.rets[0].clos[i]
		}
		ex.clos = append(ex.clos, cl)
		if same {
			ex.vals = append(ex.vals, first)
			continue
		}
		rv := vc.fresh(fmt.Sprintf("%sresult%d", fr.id, i), vc.sortOf(fn.Signature.Results().At(i).Type()))
		for _, r := range fr.rets {
			vc.emit("(assert " + sImp(r.cond, sEq(rv, r.vals[i])) + ")")
		}
		ex.vals = append(ex.vals, rv)
	}
	return ex
}

func predIndex(b, from *ssa.BasicBlock) int {
	for i, p := range b.Preds {
		if p == from {
			return i
		}
	}
	return -1
}

func (fr *Frame) mergePhiAddr(phi *ssa.Phi, b *ssa.BasicBlock, ins []edgeRec) {
	var first *Addr
	for _, e := range ins {
		idx := predIndex(b, e.from)
		if idx < 0 {
			continue
		}
		a := fr.addrOf(phi.Edges[idx])
		if a == nil {
			return
		}
		if first == nil {
			first = a
		} else if a.Var != first.Var || a.Kind != first.Kind || a.Ref != first.Ref || a.Idx != first.Idx {
			fr.vc.warn("%s: phi %s merges different static addresses (escaping address, cell model used)", fr.vc.qname, phi.Name())
			return
		}
	}
	if first != nil {
		fr.addrs[phi] = first
	}
}

func (fr *Frame) mergePhiClo(phi *ssa.Phi, b *ssa.BasicBlock, ins []edgeRec) {
	var first *closureVal
	for _, e := range ins {
		idx := predIndex(b, e.from)
		if idx < 0 {
			continue
		}
		fr.val(phi.Edges[idx])
		c := fr.clos[phi.Edges[idx]]
		if c == nil {
			return
		}
		if first == nil {
			first = c
		} else if c.fn != first.fn {
			return
		}
	}
	if first != nil {
		fr.clos[phi] = first
	}
}

// collectNames maps source-level names to SSA values where that is unambiguous:
// parameters, φ-nodes (via their comment) and single-assignment locals (debug refs).
func (fr *Frame) collectNames() {
	amb := map[string]bool{}
	put := func(n string, v ssa.Value) {
		if n == "" || amb[n] {
			return
		}
		if old, ok := fr.names[n]; ok && old != v {
			delete(fr.names, n)
			amb[n] = true
			return
		}
		fr.names[n] = v
	}
	for _, b := range fr.fn.Blocks {
		for _, in := range b.Instrs {
			switch x := in.(type) {
			case *ssa.DebugRef:
				if x.IsAddr {
					continue
				}
				if obj, ok := x.Object().(*types.Var); ok && !obj.IsField() {
					if _, isParam := x.X.(*ssa.Parameter); !isParam {
						put(obj.Name(), x.X)
					}
				}
			}
		}
	}
	// φ-nodes win over debug refs (the loop-carried value is what invariants mean)
	for _, b := range fr.fn.Blocks {
		for _, in := range b.Instrs {
			if phi, ok := in.(*ssa.Phi); ok && phi.Comment != "" {
				n := phi.Comment
				if n == "rangeindex" {
					n = "$idx"
				}
				if _, isLoop := fr.loops[b]; isLoop {
					fr.names[n] = phi
					amb[n] = false
				}
			}
		}
	}
	for _, l := range fr.fn.Locals {
		if l.Comment != "" {
			put("&"+l.Comment, l)
		}
	}
	// address-taken variables that escape to the heap (captured by closures)
	for _, b := range fr.fn.Blocks {
		for _, in := range b.Instrs {
			if a, ok := in.(*ssa.Alloc); ok && a.Heap && a.Comment != "" && a.Comment != "complit" && a.Comment != "varargs" && a.Comment != "new" {
				put("&"+a.Comment, a)
			}
		}
	}
}

// ---------------------------------------------------------------------------
// Loops

func (fr *Frame) loopSpec(li *loopInfo) *LoopSpec {
	if fr.spec == nil {
		return nil
	}
	return fr.spec.Loops[li.ordinal]
}

func (fr *Frame) enterLoop(li *loopInfo, reach string, st *State, pre map[*ssa.Phi]string) {
	vc := fr.vc
	spec := fr.loopSpec(li)
	fname := QualName(fr.fn)
	// 1. invariant holds on entry (φ = incoming values)
	for phi, pv := range pre {
		fr.vals[phi] = pv
	}
	if spec != nil && fr.env != nil {
		for _, inv := range spec.Invariants {
			if !inv.appliesTo(vc.prop) {
				continue
			}
			env := fr.env.at(st, fr)
			env.loopHdr = li.header
			g := env.evalBool(inv.E)
			vc.oblige("invariant", fmt.Sprintf("%s/%s/loop%d/invariant[%s]/entry", vc.prop, fname, li.ordinal, inv.Name), inv.Src, reach, g, li.header.Instrs[0].Pos(), inv.Claimed)
		}
	}
	// 2. havoc what the loop may modify
	hst := st.clone()
	mods, all := vc.modsOfBlocks(fr, li.blocks)
	if all {
		vc.havocAll(hst, reach)
	} else {
		for _, m := range mods {
			if _, ok := vc.hsort[m]; ok {
				vc.havocVar(hst, m)
			}
		}
	}
	for _, phi := range li.phis {
		pv := vc.fresh(fr.name(phi), vc.sortOf(phi.Type()))
		fr.vals[phi] = pv
		vc.assume(reach, vc.rangeFact(pv, phi.Type()))
		delete(fr.addrs, phi)
	}
	li.st = hst
	li.reach = vc.def(fmt.Sprintf("loop%d.%sreach", li.ordinal, fr.id), "Bool", reach)
	// 2b. the function's frame is an implicit loop invariant (checked on entry
	// and at every back edge like any other invariant)
	if fr.parent == nil && vc.frameAllowed != nil {
		for _, v := range sortedKeys(vc.hsort) {
			if g := vc.frameGoal(v, st); g != "" {
				vc.oblige("frame", fmt.Sprintf("%s/%s/loop%d/frame[%s]/entry", vc.prop, fname, li.ordinal, strings.TrimPrefix(v, "F!")), "modifies (implicit loop invariant)", reach, g, li.header.Instrs[0].Pos(), true)
			}
			if g := vc.frameGoal(v, hst); g != "" {
				vc.assume(li.reach, g)
			}
		}
	}
	// 3. assume the invariant in the arbitrary iteration
	if spec != nil && fr.env != nil {
		env := fr.env.at(hst, fr)
		env.loopHdr = li.header
		for _, inv := range spec.Invariants {
			vc.assume(li.reach, env.evalBool(inv.E))
		}
		if spec.Decreases != nil {
			li.dec0 = vc.def("dec0", "Int", env.eval(spec.Decreases.E).t)
		}
	}
}

func (fr *Frame) backEdge(li *loopInfo, from *ssa.BasicBlock, cond string, st *State) {
	vc := fr.vc
	spec := fr.loopSpec(li)
	if spec == nil || fr.env == nil {
		return
	}
	fname := QualName(fr.fn)
	idx := predIndex(li.header, from)
	saved := map[*ssa.Phi]string{}
	for _, phi := range li.phis {
		saved[phi] = fr.vals[phi]
	}
	newv := map[*ssa.Phi]string{}
	for _, phi := range li.phis {
		newv[phi] = fr.val(phi.Edges[idx])
	}
	for phi, v := range newv {
		fr.vals[phi] = v
	}
	env := fr.env.at(st, fr)
	env.loopHdr = li.header
	for _, inv := range spec.Invariants {
		if !inv.appliesTo(vc.prop) {
			continue
		}
		g := env.evalBool(inv.E)
		vc.oblige("invariant", fmt.Sprintf("%s/%s/loop%d/invariant[%s]/preserved", vc.prop, fname, li.ordinal, inv.Name), inv.Src, cond, g, from.Instrs[len(from.Instrs)-1].Pos(), inv.Claimed)
	}
	if fr.parent == nil && vc.frameAllowed != nil {
		for _, v := range sortedKeys(vc.hsort) {
			if g := vc.frameGoal(v, st); g != "" {
				vc.oblige("frame", fmt.Sprintf("%s/%s/loop%d/frame[%s]/preserved", vc.prop, fname, li.ordinal, strings.TrimPrefix(v, "F!")), "modifies (implicit loop invariant)", cond, g, from.Instrs[len(from.Instrs)-1].Pos(), true)
			}
		}
	}
	if spec.Decreases != nil && li.dec0 != "" {
		d1 := env.eval(spec.Decreases.E).t
		vc.oblige("decreases", fmt.Sprintf("%s/%s/loop%d/decreases", vc.prop, fname, li.ordinal), spec.Decreases.Src, cond,
			fmt.Sprintf("(and (>= %s 0) (< %s %s))", li.dec0, d1, li.dec0), from.Instrs[len(from.Instrs)-1].Pos(), true)
	}
	for phi, v := range saved {
		fr.vals[phi] = v
	}
}

// ---------------------------------------------------------------------------
// Instructions

func (fr *Frame) succEdge(from, to *ssa.BasicBlock, cond string, st *State, back map[[2]int]bool) {
	if back[[2]int{from.Index, to.Index}] {
		if li := fr.loops[to]; li != nil {
			fr.backEdge(li, from, cond, st)
		}
		return
	}
	fr.edges[to] = append(fr.edges[to], edgeRec{from, cond, st.clone()})
}

func (fr *Frame) step(in ssa.Instruction, st *State, reach string, back map[[2]int]bool) string {
	vc := fr.vc
	switch x := in.(type) {
	case *ssa.DebugRef:
	case *ssa.Alloc:
		elem := x.Type().(*types.Pointer).Elem()
		r := vc.freshRef(st, reach, fr.name(x))
		fr.vals[x] = r
		if isAggregate(elem) {
			vc.zeroStruct(st, elem, r, 0)
			// ghost fields of a fresh object start at their zero value
			for _, key := range sortedKeys(vc.DB.Ghosts) {
				g := vc.DB.Ghosts[key]
				if g.Global || g.Recv != typeKey(elem) {
					continue
				}
				gs := ghostSort(g.Sort)
				hv := vc.heapVar("GF!"+g.Name, "(Array Int "+gs+")")
				vc.set(st, hv, vc.hsort[hv], fmt.Sprintf("(store %s %s %s)", vc.look(st, hv), r, zeroOf(gs)))
			}
		} else {
			a := vc.cellAddr(elem, r)
			fr.addrs[x] = a
			vc.write(st, a, zeroOf(a.Sort))
		}
	case *ssa.FieldAddr:
		T := x.X.Type().Underlying().(*types.Pointer).Elem()
		ref := fr.val(x.X)
		fr.safety(st, reach, "nil-deref", fmt.Sprintf("(not (= %s 0))", ref), x.Pos())
		if fr.inRecoverScope() && !fr.knownNonNil(x.X, x.Block()) {
			// inside a function that recovers, dereferencing nil is a control-flow
			// edge to the deferred functions, not an error
			cond := fmt.Sprintf("(= %s 0)", ref)
			fr.panics = append(fr.panics, mergeIn{sAnd(reach, cond), st.clone()})
			reach = vc.def("nonnil", "Bool", sAnd(reach, sNot(cond)))
			if fr.nonNil == nil {
				fr.nonNil = map[ssa.Value]*ssa.BasicBlock{}
			}
			fr.nonNil[x.X] = x.Block()
		}
		if !fr.inRecoverScope() && !vc.safety && !fr.knownNonNil(x.X, x.Block()) {
			// execution continues past a field access only if the pointer is not nil
			// (partial correctness; nil dereferences are obligations under the safety flag)
			vc.assume(reach, fmt.Sprintf("(not (= %s 0))", ref))
		}
		a, term := vc.fieldAddr(T, x.Field, ref)
		fr.vals[x] = vc.def(fr.name(x), "Int", term)
		if a != nil {
			fr.addrs[x] = a
		}
	case *ssa.Field:
		T := x.X.Type()
		s, _ := structOf(T)
		ft := s.Field(x.Field).Type()
		_ = ft
		fr.vals[x] = vc.def(fr.name(x), vc.projSort(T, x.Field), fmt.Sprintf("(%s %s)", vc.projFun(T, x.Field), fr.val(x.X)))
	case *ssa.IndexAddr:
		fr.indexAddr(x, st, reach)
	case *ssa.Index:
		// string or array value
		it := fr.val(x.Index)
		if b, ok := x.X.Type().Underlying().(*types.Basic); ok && b.Info()&types.IsString != 0 {
			s := fr.val(x.X)
			fr.safety(st, reach, "index", fmt.Sprintf("(and (<= 0 %s) (< %s (strlen %s)))", it, it, s), x.Pos())
			fr.vals[x] = vc.def(fr.name(x), "Int", fmt.Sprintf("(str_at %s %s)", s, it))
		} else {
			if at, ok := x.X.Type().Underlying().(*types.Array); ok {
				fr.safety(st, reach, "index", fmt.Sprintf("(and (<= 0 %s) (< %s %d))", it, it, at.Len()), x.Pos())
			}
			fr.vals[x] = vc.fresh(fr.name(x), vc.sortOf(x.Type()))
			vc.assume(reach, vc.rangeFact(fr.vals[x], x.Type()))
		}
	case *ssa.UnOp:
		fr.unop(x, st, reach)
	case *ssa.Store:
		fr.guardedAccess(x, x.Addr, true, st, reach)
		v := fr.val(x.Val)
		pt := x.Addr.Type().Underlying().(*types.Pointer)
		if isAggregate(pt.Elem()) {
			vc.storeStruct(st, pt.Elem(), fr.val(x.Addr), v)
		} else if a, ok := fr.pointerTarget(x.Addr); ok {
			if a.Kind == "cell" && fr.addrOf(x.Addr) == nil {
				fr.safety(st, reach, "nil-deref", fmt.Sprintf("(not (= %s 0))", a.Ref), x.Pos())
			}
			vc.write(st, a, v)
			// remember closures stored into cells (captured func variables)
			if c := fr.clos[x.Val]; c != nil {
				fr.clos[x.Addr] = c
			}
		}
	case *ssa.BinOp:
		fr.binop(x, st, reach)
	case *ssa.Phi:
	case *ssa.Call:
		res := fr.call(x, x.Common(), st, &reach)
		fr.bindResults(x, res)
	case *ssa.Go:
		fr.goStmt(x, st, &reach)
	case *ssa.Defer:
		fr.defers = append(fr.defers, x)
		st.H[fr.deferFlag(x)] = "true"
		for _, a := range x.Call.Args {
			fr.val(a)
		}
		fr.val(x.Call.Value)
	case *ssa.RunDefers:
		reach = fr.runDefers(st, reach, false)
	case *ssa.Extract:
		tp := fr.tuples[x.Tuple]
		if tp != nil && x.Index < len(tp) {
			fr.vals[x] = tp[x.Index]
		} else {
			fr.vals[x] = vc.fresh(fr.name(x), vc.sortOf(x.Type()))
			vc.assume(reach, vc.rangeFact(fr.vals[x], x.Type()))
		}
	case *ssa.MakeInterface:
		fr.vals[x] = vc.def(fr.name(x), "Iface", fmt.Sprintf("(mk_iface %s %s)", vc.typeID(x.X.Type()), vc.box(fr.val(x.X), x.X.Type())))
		// boxing the address of a local variable (fmt.Sscan(&x), binary.Read(.., &x)):
		// whoever receives the interface value may write the variable
		if pt, ok := x.X.Type().Underlying().(*types.Pointer); ok {
			if _, isStruct := pt.Elem().Underlying().(*types.Struct); !isStruct {
				if _, isArr := pt.Elem().Underlying().(*types.Array); isArr {
					vc.markEscapedBase(st, fr.val(x.X))
				} else {
					vc.markEscapedRef(st, fr.val(x.X))
				}
			}
		}
	case *ssa.ChangeInterface:
		fr.vals[x] = fr.val(x.X)
	case *ssa.ChangeType:
		fr.vals[x] = fr.val(x.X)
		if c := fr.clos[x.X]; c != nil {
			fr.clos[x] = c
		}
		if a := fr.addrOf(x.X); a != nil {
			fr.addrs[x] = a
		}
	case *ssa.Convert:
		fr.convert(x, st, reach)
	case *ssa.MultiConvert:
		fr.vals[x] = fr.val(x.X)
	case *ssa.TypeAssert:
		fr.typeAssert(x, st, reach)
	case *ssa.MakeClosure:
		fn := x.Fn.(*ssa.Function)
		fr.clos[x] = &closureVal{fn: fn, bindings: x.Bindings, frame: fr}
		fr.vals[x] = vc.freshRef(st, reach, fr.name(x))
	case *ssa.MakeSlice:
		base := vc.freshRef(st, reach, fr.name(x)+".base")
		et := x.Type().Underlying().(*types.Slice).Elem()
		ev := vc.elemVar(et)
		l, c := fr.val(x.Len), fr.val(x.Cap)
		fr.safety(st, reach, "makeslice", fmt.Sprintf("(and (<= 0 %s) (<= %s %s))", l, l, c), x.Pos())
		esort := vc.sortOf(et)
		vc.set(st, ev, vc.hsort[ev], fmt.Sprintf("(store %s %s ((as const (Array Int %s)) %s))", vc.look(st, ev), base, esort, zeroOf(esort)))
		fr.vals[x] = vc.def(fr.name(x), "Slice", fmt.Sprintf("(mk_slice %s 0 %s %s)", base, l, c))
		if isAggregate(et) {
			// struct elements of a fresh array are zero (flat structs only)
			if flds, flat := vc.flatFieldVars(et); flat {
				fn := vc.eaddrFun(et)
				for _, hv := range flds {
					_, out := arraySorts(vc.hsort[hv])
					vc.assume(reach, fmt.Sprintf("(forall ((i Int)) (! (= (select %s (%s %s i)) %s) :pattern ((%s %s i))))", vc.look(st, hv), fn, base, zeroOf(out), fn, base))
				}
			}
		}
		fr.noteAlloc(st, reach, l, x.Pos())
	case *ssa.MakeMap:
		r := vc.freshRef(st, reach, fr.name(x))
		fr.vals[x] = r
		mt := x.Type().Underlying().(*types.Map)
		has, _, ln := vc.mapVars(mt)
		vc.set(st, has, vc.hsort[has], fmt.Sprintf("(store %s %s ((as const (Array %s Bool)) false))", vc.look(st, has), r, vc.sortOf(mt.Key())))
		vc.set(st, ln, vc.hsort[ln], fmt.Sprintf("(store %s %s 0)", vc.look(st, ln), r))
	case *ssa.MakeChan:
		fr.vals[x] = vc.freshRef(st, reach, fr.name(x))
	case *ssa.Slice:
		fr.sliceOp(x, st, reach)
	case *ssa.Lookup:
		fr.lookup(x, st, reach)
	case *ssa.MapUpdate:
		fr.mapUpdate(x, st, reach)
	case *ssa.Range:
		fr.vals[x] = vc.fresh(fr.name(x), "Int")
	case *ssa.Next:
		tt := x.Type().(*types.Tuple)
		var vs []string
		for i := 0; i < tt.Len(); i++ {
			v := vc.fresh(fmt.Sprintf("%s.%d", fr.name(x), i), vc.sortOf(tt.At(i).Type()))
			vc.assume(reach, vc.rangeFact(v, tt.At(i).Type()))
			vs = append(vs, v)
		}
		fr.tuples[x] = vs
		vc.Unmodelled["range over map/string: iteration order and coverage abstracted"]++
	case *ssa.Select:
		tt := x.Type().(*types.Tuple)
		var vs []string
		for i := 0; i < tt.Len(); i++ {
			vs = append(vs, vc.fresh(fmt.Sprintf("%s.%d", fr.name(x), i), vc.sortOf(tt.At(i).Type())))
		}
		fr.tuples[x] = vs
		vc.Unmodelled["select: choice abstracted"]++
	case *ssa.Send:
		fr.chanSend(x, st, reach)
	case *ssa.Panic:
		if !fr.inRecoverScope() {
			fr.safety(st, reach, "explicit-panic", "false", x.Pos())
		}
		fr.panics = append(fr.panics, mergeIn{reach, st.clone()})
	case *ssa.Return:
		var vs []string
		var cls []*closureVal
		for _, r := range x.Results {
			vs = append(vs, fr.val(r))
			cls = append(cls, fr.clos[r])
		}
		fr.rets = append(fr.rets, retRec{reach, st.clone(), vs, cls, x.Pos()})
	case *ssa.Jump:
		fr.succEdge(x.Block(), x.Block().Succs[0], reach, st, back)
	case *ssa.If:
		c := fr.val(x.Cond)
		b := x.Block()
		if c != "true" && c != "false" {
			vc.conds = append(vc.conds, condRec{c, len(vc.lines)})
		}
		fr.succEdge(b, b.Succs[0], sAnd(reach, c), st, back)
		fr.succEdge(b, b.Succs[1], sAnd(reach, sNot(c)), st, back)
	case *ssa.SliceToArrayPointer:
		fr.vals[x] = vc.def(fr.name(x), "Int", fmt.Sprintf("(s_base %s)", fr.val(x.X)))
	default:
		vc.warn("unsupported instruction %T in %s", in, QualName(fr.fn))
		if v, ok := in.(ssa.Value); ok {
			fr.vals[v] = vc.fresh(fr.name(v), vc.sortOf(v.Type()))
		}
	}
	return reach
}

func (vc *VC) projSort(T types.Type, i int) string {
	s, _ := structOf(T)
	if isAggregate(s.Field(i).Type()) {
		return "Int"
	}
	return vc.sortOf(s.Field(i).Type())
}

func (vc *VC) box(term string, t types.Type) string {
	switch vc.sortOf(t) {
	case "Bool":
		return sIte(term, "1", "0")
	case "Slice":
		return "(box_slice " + term + ")"
	case "Iface":
		return "(i_val " + term + ")"
	}
	return term
}

func (vc *VC) unbox(term string, t types.Type) string {
	switch vc.sortOf(t) {
	case "Bool":
		return "(= " + term + " 1)"
	case "Slice":
		return "(unbox_slice " + term + ")"
	}
	return term
}

func (fr *Frame) bindResults(v ssa.Value, res []string) {
	tt, isTuple := v.Type().(*types.Tuple)
	if isTuple {
		if len(res) != tt.Len() {
			res = nil
			for i := 0; i < tt.Len(); i++ {
				res = append(res, fr.vc.fresh(fmt.Sprintf("%s.%d", fr.name(v), i), fr.vc.sortOf(tt.At(i).Type())))
			}
		}
		fr.tuples[v] = res
		return
	}
	if len(res) == 1 {
		fr.vals[v] = res[0]
	}
}

func (fr *Frame) deferFlag(d *ssa.Defer) string {
	k := -1
	n := 0
	for _, b := range fr.fn.Blocks {
		for _, in := range b.Instrs {
			if dd, ok := in.(*ssa.Defer); ok {
				if dd == d {
					k = n
				}
				n++
			}
		}
	}
	name := fmt.Sprintf("$defer!%s%d", fr.id, k)
	fr.vc.hsort[name] = "Bool"
	return name
}

// knownNonNil: the pointer cannot be nil here for syntactic reasons (address of a
// variable or field, fresh allocation, non-nil receiver of the function under
// verification, or already dereferenced in a dominating block).
func (fr *Frame) knownNonNil(v ssa.Value, at *ssa.BasicBlock) bool {
	switch x := v.(type) {
	case *ssa.Alloc, *ssa.FieldAddr, *ssa.IndexAddr, *ssa.Global, *ssa.MakeClosure, *ssa.FreeVar:
		return true
	case *ssa.Parameter:
		if fr.parent == nil && fr.fn.Signature.Recv() != nil && len(fr.fn.Params) > 0 && fr.fn.Params[0] == x {
			return fr.spec == nil || !fr.spec.Flags["nil-receiver"]
		}
	}
	if b, ok := fr.nonNil[v]; ok && (b == at || b.Dominates(at)) {
		return true
	}
	return false
}

// locksGuard: fn contains a Lock/RLock call on field `mutex` of an object of type T.
func locksGuard(fn *ssa.Function, T types.Type, mutex string) bool {
	for _, b := range fn.Blocks {
		for _, in := range b.Instrs {
			ci, ok := in.(ssa.CallInstruction)
			if !ok {
				continue
			}
			callee := ci.Common().StaticCallee()
			if callee == nil || (callee.Name() != "Lock" && callee.Name() != "RLock") || len(ci.Common().Args) == 0 {
				continue
			}
			fa, ok := ci.Common().Args[0].(*ssa.FieldAddr)
			if !ok {
				continue
			}
			FT := fa.X.Type().Underlying().(*types.Pointer).Elem()
			if sT, ok := structOf(FT); ok && typeKey(FT) == typeKey(T) && sT.Field(fa.Field).Name() == mutex {
				return true
			}
		}
	}
	return false
}

// guardedAccess: lock discipline obligation for a read/write of a field declared
// "guarded (*T).f by mu".
func (fr *Frame) guardedAccess(site ssa.Instruction, addr ssa.Value, write bool, st *State, reach string) {
	vc := fr.vc
	if len(vc.DB.Guarded) == 0 {
		return
	}
	fa, ok := addr.(*ssa.FieldAddr)
	if !ok {
		return
	}
	T := fa.X.Type().Underlying().(*types.Pointer).Elem()
	sT, ok := structOf(T)
	if !ok {
		return
	}
	gd := vc.DB.Guarded[typeKey(T)+"."+sT.Field(fa.Field).Name()]
	if gd == nil {
		return
	}
	applies := len(gd.Props) == 0
	for _, p := range gd.Props {
		if p == vc.prop {
			applies = true
		}
	}
	if !applies {
		return
	}
	root := fr
	for root.parent != nil {
		root = root.parent
	}
	if gd.Except[QualName(root.fn)] || gd.Except[QualName(fr.fn)] {
		return
	}
	// an object created by this function is exempt - unless the function itself
	// locks the guard of that object (then it shares the object while it runs)
	if createdHere(fa.X, 0) && !locksGuard(root.fn, T, gd.Mutex) {
		return
	}
	if gd.Mutex == "atomic" {
		// declared "guarded (*T).f by atomic": only sync/atomic may touch the field
		fr.callSeq["guarded"]++
		kind := "read"
		if write {
			kind = "write"
		}
		nm := fmt.Sprintf("%s/%s/guarded[%s.%s by atomic]/%s#%d", vc.prop, vc.qname, gd.Recv, gd.Field, kind, fr.callSeq["guarded"])
		if fr.parent != nil {
			nm += " in " + QualName(fr.fn)
		}
		vc.oblige("guarded", nm, fmt.Sprintf("plain %s of %s.%s (atomic-only field)", kind, gd.Recv, gd.Field), reach, "false", site.Pos(), true)
		return
	}
	mi := -1
	for i := 0; i < sT.NumFields(); i++ {
		if sT.Field(i).Name() == gd.Mutex {
			mi = i
		}
	}
	if mi < 0 {
		vc.warn("guarded %s.%s: no mutex field %s", gd.Recv, gd.Field, gd.Mutex)
		return
	}
	_, mterm := vc.fieldAddr(T, mi, fr.val(fa.X))
	held := vc.heapVar("$held", "(Array Int Bool)")
	goal := fmt.Sprintf("(select %s %s)", vc.look(st, held), mterm)
	kind := "write"
	if !write {
		kind = "read"
		rheld := vc.heapVar("$rheld", "(Array Int Int)")
		goal = fmt.Sprintf("(or %s (> (select %s %s) 0))", goal, vc.look(st, rheld), mterm)
	}
	fr.callSeq["guarded"]++
	nm := fmt.Sprintf("%s/%s/guarded[%s.%s by %s]/%s#%d", vc.prop, vc.qname, gd.Recv, gd.Field, gd.Mutex, kind, fr.callSeq["guarded"])
	if fr.parent != nil {
		nm += " in " + QualName(fr.fn)
	}
	vc.oblige("guarded", nm, fmt.Sprintf("%s of %s.%s with %s held", kind, gd.Recv, gd.Field, gd.Mutex), reach, goal, site.Pos(), true)
}

func (fr *Frame) inRecoverScope() bool {
	for f := fr; f != nil; f = f.parent {
		if f.spec != nil && f.spec.Flags["recover-scope"] {
			return true
		}
	}
	return false
}

// safety emits an implicit safety obligation when the function is checked with
// the safety flag (index/slice bounds, nil dereference, explicit panic ...).
func (fr *Frame) safety(st *State, reach, kind, goal string, pos token.Pos) {
	vc := fr.vc
	if !vc.safety || goal == "true" {
		return
	}
	if fr.inRecoverScope() && kind != "alloc-bound" {
		return
	}
	p := vc.P.Prog.Fset.Position(pos)
	fr.callSeq["safety:"+kind]++
	name := fmt.Sprintf("%s/%s/safety[%s#%d]", vc.prop, QualName(fr.fn), kind, fr.callSeq["safety:"+kind])
	if fr.parent != nil {
		name = fmt.Sprintf("%s/%s/safety[%s#%d in %s]", vc.prop, vc.qname, kind, fr.callSeq["safety:"+kind], QualName(fr.fn))
	}
	o := vc.oblige("safety", name, kind+" at "+fmt.Sprintf("%s:%d", relRepo(p.Filename), p.Line), reach, goal, pos, true)
	_ = o
}

// noteAlloc records an allocation of n elements for allocation-bound clauses
// (ghost global maxAlloc, declared by the contracts that use it).
func (fr *Frame) noteAlloc(st *State, reach, n string, pos token.Pos) {
	vc := fr.vc
	if _, ok := vc.DB.Ghosts["global:maxAlloc"]; !ok {
		return
	}
	hv := vc.heapVar("Gh!maxAlloc", "Int")
	cur := vc.look(st, hv)
	vc.set(st, hv, "Int", fmt.Sprintf("(ite (> %s %s) %s %s)", n, cur, n, cur))
}

func (fr *Frame) indexAddr(x *ssa.IndexAddr, st *State, reach string) {
	vc := fr.vc
	idx := fr.val(x.Index)
	var base, off, ln string
	var et types.Type
	switch t := x.X.Type().Underlying().(type) {
	case *types.Slice:
		s := fr.val(x.X)
		base, off, ln = "(s_base "+s+")", "(s_off "+s+")", "(s_len "+s+")"
		et = t.Elem()
	case *types.Pointer:
		at := t.Elem().Underlying().(*types.Array)
		base, off, ln = fr.val(x.X), "0", fmt.Sprint(at.Len())
		et = at.Elem()
	}
	fr.safety(st, reach, "index", fmt.Sprintf("(and (<= 0 %s) (< %s %s))", idx, idx, ln), x.Pos())
	pos := fmt.Sprintf("(+ %s %s)", off, idx)
	if off == "0" {
		pos = idx
	}
	if isAggregate(et) {
		fn := sym("eaddr!" + typeKey(et))
		if !vc.declared[fn] {
			vc.declareFun(fn, []string{"Int", "Int"}, "Int")
			vc.declareFun(fn+"!b", []string{"Int"}, "Int")
			vc.declareFun(fn+"!i", []string{"Int"}, "Int")
			vc.emit(fmt.Sprintf("(assert (forall ((b Int) (i Int)) (! (and (= (%s!b (%s b i)) b) (= (%s!i (%s b i)) i) (> (%s b i) 0)) :pattern ((%s b i)))))", fn, fn, fn, fn, fn, fn))
		}
		fr.vals[x] = vc.def(fr.name(x), "Int", fmt.Sprintf("(%s %s %s)", fn, base, pos))
		return
	}
	ev := vc.elemVar(et)
	if vc.quantified() && vc.contract != nil && vc.contract.Flags["seed-elems"] {
		// seed the trigger term of quantified clauses about slice elements (s[i])
		row := fmt.Sprintf("(select %s %s)", vc.look(st, ev), base)
		fn := vc.slAt(vc.sortOf(et))
		vc.emit(fmt.Sprintf("(assert (= (%s %s %s %s) (select %s %s)))", fn, row, off, idx, row, pos))
	}
	fr.addrs[x] = &Addr{Kind: "elem", Var: ev, Ref: vc.def(fr.name(x)+".b", "Int", base), Idx: vc.def(fr.name(x)+".i", "Int", pos), Sort: vc.sortOf(et), Typ: et}
	fr.vals[x] = vc.fresh(fr.name(x), "Int")
}

func (fr *Frame) unop(x *ssa.UnOp, st *State, reach string) {
	vc := fr.vc
	switch x.Op {
	case token.MUL: // load
		fr.guardedAccess(x, x.X, false, st, reach)
		pt := x.X.Type().Underlying().(*types.Pointer)
		if g, ok := x.X.(*ssa.Global); ok {
			if full, ok := vc.DB.FuncAlias[shortPkg(g.Pkg.Pkg.Path())+"."+g.Name()]; ok && fr.fn.Name() != "init" {
				if fn := vc.P.lookupFull(full); fn != nil {
					fr.clos[x] = &closureVal{fn: fn}
					fr.vals[x] = vc.funcConst(full)
					return
				}
			}
			if _, z := vc.DB.ZeroGlobals[shortPkg(g.Pkg.Pkg.Path())+"."+g.Name()]; z {
				fr.vals[x] = zeroOf(vc.sortOf(pt.Elem()))
				return
			}
		}
		if isAggregate(pt.Elem()) {
			fr.vals[x] = vc.loadStruct(st, reach, pt.Elem(), fr.val(x.X))
			return
		}
		a, ok := fr.pointerTarget(x.X)
		if !ok {
			fr.vals[x] = vc.fresh(fr.name(x), vc.sortOf(x.Type()))
			return
		}
		if a.Kind == "cell" && fr.addrOf(x.X) == nil {
			fr.safety(st, reach, "nil-deref", fmt.Sprintf("(not (= %s 0))", a.Ref), x.Pos())
		}
		v := vc.def(fr.name(x), a.Sort, vc.read(st, a))
		fr.vals[x] = v
		vc.assume(reach, vc.rangeFact(v, x.Type()))
		vc.assume(reach, fr.allocFact(st, v, x.Type()))
		if c := fr.clos[x.X]; c != nil {
			fr.clos[x] = c
		}
	case token.NOT:
		fr.vals[x] = sNot(fr.val(x.X))
	case token.SUB:
		fr.vals[x] = vc.def(fr.name(x), "Int", vc.wrap(fmt.Sprintf("(- %s)", fr.val(x.X)), x.Type()))
	case token.XOR:
		fr.vals[x] = vc.def(fr.name(x), "Int", vc.wrap(fmt.Sprintf("(bitnot %s)", fr.val(x.X)), x.Type()))
	case token.ARROW:
		fr.chanRecv(x, st, reach)
	default:
		fr.vals[x] = vc.fresh(fr.name(x), vc.sortOf(x.Type()))
	}
}

// allocFact: a reference read from memory designates an already allocated object.
func (fr *Frame) allocFact(st *State, v string, t types.Type) string {
	alloc := fr.vc.look(st, "$alloc")
	switch t.Underlying().(type) {
	case *types.Pointer, *types.Map, *types.Chan:
		return fmt.Sprintf("(<= %s %s)", v, alloc)
	case *types.Slice:
		return fmt.Sprintf("(<= (s_base %s) %s)", v, alloc)
	case *types.Interface:
		return fmt.Sprintf("(<= (i_val %s) %s)", v, alloc)
	}
	return "true"
}

func (fr *Frame) binop(x *ssa.BinOp, st *State, reach string) {
	vc := fr.vc
	a, b := fr.val(x.X), fr.val(x.Y)
	t := x.X.Type()
	isStr := false
	if bt, ok := t.Underlying().(*types.Basic); ok && bt.Info()&types.IsString != 0 {
		isStr = true
	}
	isFloat := false
	if bt, ok := t.Underlying().(*types.Basic); ok && bt.Info()&(types.IsFloat|types.IsComplex) != 0 {
		isFloat = true
	}
	var r string
	sortR := vc.sortOf(x.Type())
	switch x.Op {
	case token.ADD:
		if isStr {
			r = fmt.Sprintf("(str_cat %s %s)", a, b)
		} else if isFloat {
			r = ""
		} else {
			r = vc.wrap(fmt.Sprintf("(+ %s %s)", a, b), x.Type())
			fr.overflow(st, reach, fmt.Sprintf("(+ %s %s)", a, b), x)
		}
	case token.SUB:
		if !isFloat {
			r = vc.wrap(fmt.Sprintf("(- %s %s)", a, b), x.Type())
			fr.overflow(st, reach, fmt.Sprintf("(- %s %s)", a, b), x)
		}
	case token.MUL:
		if !isFloat {
			r = vc.wrap(fmt.Sprintf("(* %s %s)", a, b), x.Type())
			fr.overflow(st, reach, fmt.Sprintf("(* %s %s)", a, b), x)
		}
	case token.QUO:
		if !isFloat {
			fr.safety(st, reach, "div-by-zero", fmt.Sprintf("(not (= %s 0))", b), x.Pos())
			// Go truncates toward zero
			r = fmt.Sprintf("(ite (>= %s 0) (div %s %s) (- (div (- %s) %s)))", a, a, b, a, b)
			if rg, ok := basicRange(x.Type()); ok && !rg.signed {
				r = fmt.Sprintf("(div %s %s)", a, b)
			}
		}
	case token.REM:
		if !isFloat {
			fr.safety(st, reach, "div-by-zero", fmt.Sprintf("(not (= %s 0))", b), x.Pos())
			r = fmt.Sprintf("(ite (>= %s 0) (mod %s %s) (- (mod (- %s) %s)))", a, a, b, a, b)
			if rg, ok := basicRange(x.Type()); ok && !rg.signed {
				r = fmt.Sprintf("(mod %s %s)", a, b)
			}
		}
	case token.AND:
		r = bitOpConst("bitand", a, b, x)
	case token.OR:
		r = fmt.Sprintf("(bitor %s %s)", a, b)
	case token.XOR:
		r = fmt.Sprintf("(bitxor %s %s)", a, b)
	case token.SHL:
		if k, ok := smallConst(x.Y); ok {
			r = vc.wrap(fmt.Sprintf("(* %s %d)", a, int64(1)<<uint(k)), x.Type())
		} else {
			r = vc.wrap(fmt.Sprintf("(bitshl %s %s)", a, b), x.Type())
		}
	case token.SHR:
		if k, ok := smallConst(x.Y); ok {
			r = fmt.Sprintf("(div %s %d)", a, int64(1)<<uint(k))
		} else {
			r = fmt.Sprintf("(bitshr %s %s)", a, b)
		}
	case token.AND_NOT:
		r = fmt.Sprintf("(bitandnot %s %s)", a, b)
	case token.EQL:
		r = sEq(a, b)
		if a == b {
			r = "true"
		}
	case token.NEQ:
		r = sNot(sEq(a, b))
	case token.LSS:
		if isStr || isFloat {
			r = ""
		} else {
			r = fmt.Sprintf("(< %s %s)", a, b)
		}
	case token.LEQ:
		if isStr || isFloat {
			r = ""
		} else {
			r = fmt.Sprintf("(<= %s %s)", a, b)
		}
	case token.GTR:
		if isStr || isFloat {
			r = ""
		} else {
			r = fmt.Sprintf("(> %s %s)", a, b)
		}
	case token.GEQ:
		if isStr || isFloat {
			r = ""
		} else {
			r = fmt.Sprintf("(>= %s %s)", a, b)
		}
	}
	if r == "" {
		fr.vals[x] = vc.fresh(fr.name(x), sortR)
		vc.assume(reach, vc.rangeFact(fr.vals[x], x.Type()))
		if isFloat {
			vc.Unmodelled["floating point arithmetic abstracted"]++
		}
		return
	}
	fr.vals[x] = vc.def(fr.name(x), sortR, r)
}

func smallConst(v ssa.Value) (int, bool) {
	c, ok := v.(*ssa.Const)
	if !ok || c.Value == nil {
		return 0, false
	}
	n, ok := constantInt(c)
	if !ok || n < 0 || n > 62 {
		return 0, false
	}
	return int(n), true
}

func constantInt(c *ssa.Const) (int64, bool) {
	if c.Value == nil {
		return 0, false
	}
	defer func() { recover() }()
	return c.Int64(), true
}

func bitOpConst(fn, a, b string, x *ssa.BinOp) string {
	// x & (2^k - 1) is x mod 2^k for non-negative x
	if c, ok := x.Y.(*ssa.Const); ok {
		if n, ok := constantInt(c); ok && n > 0 && (n&(n+1)) == 0 {
			if rg, ok := basicRange(x.X.Type()); ok && !rg.signed {
				return fmt.Sprintf("(mod %s %d)", a, n+1)
			}
		}
	}
	return fmt.Sprintf("(%s %s %s)", fn, a, b)
}

// overflow emits a range obligation for 64-bit arithmetic in overflow-checked functions.
func (fr *Frame) overflow(st *State, reach, exact string, x *ssa.BinOp) {
	vc := fr.vc
	if fr.spec == nil || !fr.spec.Flags["overflow-checked"] {
		return
	}
	r, ok := basicRange(x.Type())
	if !ok || r.bits != 64 {
		return
	}
	fr.callSeq["ovf"]++
	vc.oblige("safety", fmt.Sprintf("%s/%s/safety[overflow#%d]", vc.prop, QualName(fr.fn), fr.callSeq["ovf"]), "no 64-bit overflow", reach,
		fmt.Sprintf("(and (<= %s %s) (<= %s %s))", bigLit(r.lo), exact, exact, bigLit(r.hi)), x.Pos(), true)
}

func (fr *Frame) convert(x *ssa.Convert, st *State, reach string) {
	vc := fr.vc
	from, to := x.X.Type().Underlying(), x.Type().Underlying()
	v := fr.val(x.X)
	fb, fok := from.(*types.Basic)
	tb, tok := to.(*types.Basic)
	switch {
	case fok && tok && fb.Info()&types.IsInteger != 0 && tb.Info()&types.IsInteger != 0:
		r, _ := basicRange(x.Type())
		if r.bits == 64 {
			fr0, _ := basicRange(x.X.Type())
			if fr0.bits == 64 && fr0.signed != r.signed {
				// int <-> uint reinterpretation
				m := "18446744073709551616"
				if r.signed {
					fr.vals[x] = vc.def(fr.name(x), "Int", fmt.Sprintf("(ite (>= %s 9223372036854775808) (- %s %s) %s)", v, v, m, v))
				} else {
					fr.vals[x] = vc.def(fr.name(x), "Int", fmt.Sprintf("(ite (< %s 0) (+ %s %s) %s)", v, v, m, v))
				}
				return
			}
			if !r.signed && fr0.signed {
				fr.vals[x] = vc.def(fr.name(x), "Int", fmt.Sprintf("(ite (< %s 0) (+ %s 18446744073709551616) %s)", v, v, v))
				return
			}
			fr.vals[x] = v
			return
		}
		m := pow2(r.bits)
		if !r.signed {
			fr.vals[x] = vc.def(fr.name(x), "Int", fmt.Sprintf("(mod %s %s)", v, m))
		} else {
			h := pow2(r.bits - 1)
			fr.vals[x] = vc.def(fr.name(x), "Int", fmt.Sprintf("(- (mod (+ %s %s) %s) %s)", v, h, m, h))
		}
	case tok && tb.Info()&types.IsString != 0:
		if _, isSlice := from.(*types.Slice); isSlice {
			// string(bytes): a copy; content abstracted, length kept
			s := vc.fresh(fr.name(x), "Int")
			vc.assume(reach, fmt.Sprintf("(= (strlen %s) (s_len %s))", s, v))
			vc.assume(reach, sEq(s, fmt.Sprintf("(bytes2str %s %s)", v, fr.elemRow(st, v, types.Typ[types.Byte]))))
			if _, ok := vc.DB.Specs["zeroCopy"]; ok {
				// a converted string owns its bytes (unlike a zero-copy view of a buffer)
				fn := vc.declareFun(sym("spec!zeroCopy"), []string{"Int"}, "Bool")
				vc.assume(reach, fmt.Sprintf("(not (%s %s))", fn, s))
			}
			fr.vals[x] = s
			return
		}
		fr.vals[x] = vc.fresh(fr.name(x), "Int")
	case fok && fb.Info()&types.IsString != 0:
		if sl, isSlice := to.(*types.Slice); isSlice {
			base := vc.freshRef(st, reach, fr.name(x)+".base")
			vc.elemVar(sl.Elem())
			fr.vals[x] = vc.def(fr.name(x), "Slice", fmt.Sprintf("(mk_slice %s 0 (strlen %s) (strlen %s))", base, v, v))
			return
		}
		fr.vals[x] = vc.fresh(fr.name(x), vc.sortOf(x.Type()))
	default:
		if vc.sortOf(x.X.Type()) == vc.sortOf(x.Type()) && !(tok && tb.Info()&types.IsFloat != 0) && !(fok && fb.Info()&types.IsFloat != 0) {
			fr.vals[x] = v
			if a := fr.addrOf(x.X); a != nil {
				fr.addrs[x] = a
			}
		} else {
			fr.vals[x] = vc.fresh(fr.name(x), vc.sortOf(x.Type()))
			vc.assume(reach, vc.rangeFact(fr.vals[x], x.Type()))
		}
	}
}

func pow2(bits int) string {
	return new(big.Int).Lsh(big.NewInt(1), uint(bits)).String()
}

// elemRow is a fingerprint term of the content of a slice (row of the element array).
func (fr *Frame) elemRow(st *State, s string, et types.Type) string {
	ev := fr.vc.elemVar(et)
	row := fmt.Sprintf("(select %s (s_base %s))", fr.vc.look(st, ev), s)
	fn := "rowfp"
	fr.vc.declareFun(fn, []string{"(Array Int Int)"}, "Int")
	return fmt.Sprintf("(%s %s)", fn, row)
}

func (fr *Frame) typeAssert(x *ssa.TypeAssert, st *State, reach string) {
	vc := fr.vc
	v := fr.val(x.X)
	var ok, res string
	if _, isIface := x.AssertedType.Underlying().(*types.Interface); isIface {
		if types.AssertableTo(x.AssertedType.Underlying().(*types.Interface), x.X.Type()) && types.Implements(x.X.Type(), x.AssertedType.Underlying().(*types.Interface)) {
			ok = fmt.Sprintf("(not (= (i_type %s) 0))", v)
		} else {
			ok = fmt.Sprintf("(and (not (= (i_type %s) 0)) (implements (i_type %s) %s))", v, v, vc.typeID(x.AssertedType))
		}
		res = v
	} else {
		ok = fmt.Sprintf("(= (i_type %s) %s)", v, vc.typeID(x.AssertedType))
		res = vc.unbox(fmt.Sprintf("(i_val %s)", v), x.AssertedType)
	}
	okv := vc.def(fr.name(x)+".ok", "Bool", ok)
	if x.CommaOk {
		sortT := vc.sortOf(x.AssertedType)
		rv := vc.def(fr.name(x)+".v", sortT, sIte(okv, res, zeroOf(sortT)))
		fr.tuples[x] = []string{rv, okv}
		return
	}
	if !fr.inRecoverScope() {
		fr.safety(st, reach, "type-assert", okv, x.Pos())
	}
	vc.assume(reach, okv)
	fr.vals[x] = vc.def(fr.name(x), vc.sortOf(x.AssertedType), res)
}

func (fr *Frame) sliceOp(x *ssa.Slice, st *State, reach string) {
	vc := fr.vc
	v := fr.val(x.X)
	lo, hi := "0", ""
	if x.Low != nil {
		lo = fr.val(x.Low)
	}
	if x.High != nil {
		hi = fr.val(x.High)
	}
	switch t := x.X.Type().Underlying().(type) {
	case *types.Slice:
		if hi == "" {
			hi = fmt.Sprintf("(s_len %s)", v)
		}
		mx := fmt.Sprintf("(s_cap %s)", v)
		if x.Max != nil {
			mx = fr.val(x.Max)
			fr.safety(st, reach, "slice", fmt.Sprintf("(and (<= %s %s) (<= %s (s_cap %s)))", hi, mx, mx, v), x.Pos())
		}
		fr.safety(st, reach, "slice", fmt.Sprintf("(and (<= 0 %s) (<= %s %s) (<= %s (s_cap %s)))", lo, lo, hi, hi, v), x.Pos())
		fr.vals[x] = vc.def(fr.name(x), "Slice", fmt.Sprintf("(mk_slice (s_base %s) (+ (s_off %s) %s) (- %s %s) (- %s %s))", v, v, lo, hi, lo, mx, lo))
		if isByteSlice(x.X.Type()) && vc.useSeq {
			// content of a sub-slice (instantiated sequence fact)
			vc.assume(reach, fmt.Sprintf("(=> (and (<= 0 %s) (<= %s %s) (<= %s (s_len %s))) (= %s (seq_sub %s %s %s)))", lo, lo, hi, hi, v, vc.viewOf(st, fr.vals[x]), vc.viewOf(st, v), lo, hi))
		}
	case *types.Basic: // string
		if hi == "" {
			hi = fmt.Sprintf("(strlen %s)", v)
		}
		fr.safety(st, reach, "slice", fmt.Sprintf("(and (<= 0 %s) (<= %s %s) (<= %s (strlen %s)))", lo, lo, hi, hi, v), x.Pos())
		fr.vals[x] = vc.def(fr.name(x), "Int", fmt.Sprintf("(str_sub %s %s %s)", v, lo, hi))
	case *types.Pointer: // *array
		at := t.Elem().Underlying().(*types.Array)
		if hi == "" {
			hi = fmt.Sprint(at.Len())
		}
		fr.safety(st, reach, "slice", fmt.Sprintf("(and (<= 0 %s) (<= %s %s) (<= %s %d))", lo, lo, hi, hi, at.Len()), x.Pos())
		vc.elemVar(at.Elem())
		fr.vals[x] = vc.def(fr.name(x), "Slice", fmt.Sprintf("(mk_slice %s %s (- %s %s) (- %d %s))", v, lo, hi, lo, at.Len(), lo))
	default:
		fr.vals[x] = vc.fresh(fr.name(x), vc.sortOf(x.Type()))
	}
}

func (vc *VC) mapVars(mt *types.Map) (has, val, ln string) {
	k := typeKey(mt.Key()) + "!" + typeKey(mt.Elem())
	ks, vs := vc.sortOf(mt.Key()), vc.sortOf(mt.Elem())
	has = vc.heapVar("MH!"+k, fmt.Sprintf("(Array Int (Array %s Bool))", ks))
	val = vc.heapVar("MV!"+k, fmt.Sprintf("(Array Int (Array %s %s))", ks, vs))
	ln = vc.heapVar("ML!"+k, "(Array Int Int)")
	return
}

func (fr *Frame) lookup(x *ssa.Lookup, st *State, reach string) {
	vc := fr.vc
	mt, ok := x.X.Type().Underlying().(*types.Map)
	if !ok { // string index
		s, i := fr.val(x.X), fr.val(x.Index)
		fr.safety(st, reach, "index", fmt.Sprintf("(and (<= 0 %s) (< %s (strlen %s)))", i, i, s), x.Pos())
		fr.vals[x] = vc.def(fr.name(x), "Int", fmt.Sprintf("(str_at %s %s)", s, i))
		return
	}
	has, val, _ := vc.mapVars(mt)
	m, k := fr.val(x.X), fr.val(x.Index)
	h := vc.def(fr.name(x)+".has", "Bool", fmt.Sprintf("(and (not (= %s 0)) (select (select %s %s) %s))", m, vc.look(st, has), m, k))
	vs := vc.sortOf(mt.Elem())
	v := vc.def(fr.name(x)+".val", vs, sIte(h, fmt.Sprintf("(select (select %s %s) %s)", vc.look(st, val), m, k), zeroOf(vs)))
	vc.assume(reach, vc.rangeFact(v, mt.Elem()))
	vc.assume(reach, fr.allocFact(st, v, mt.Elem()))
	if x.CommaOk {
		fr.tuples[x] = []string{v, h}
	} else {
		fr.vals[x] = v
	}
}

func (fr *Frame) mapUpdate(x *ssa.MapUpdate, st *State, reach string) {
	vc := fr.vc
	mt := x.Map.Type().Underlying().(*types.Map)
	has, val, ln := vc.mapVars(mt)
	m, k, v := fr.val(x.Map), fr.val(x.Key), fr.val(x.Value)
	fr.safety(st, reach, "nil-map-write", fmt.Sprintf("(not (= %s 0))", m), x.Pos())
	hcur, vcur, lcur := vc.look(st, has), vc.look(st, val), vc.look(st, ln)
	vc.set(st, ln, vc.hsort[ln], fmt.Sprintf("(store %s %s (ite (select (select %s %s) %s) (select %s %s) (+ (select %s %s) 1)))", lcur, m, hcur, m, k, lcur, m, lcur, m))
	vc.set(st, has, vc.hsort[has], fmt.Sprintf("(store %s %s (store (select %s %s) %s true))", hcur, m, hcur, m, k))
	vc.set(st, val, vc.hsort[val], fmt.Sprintf("(store %s %s (store (select %s %s) %s %s))", vcur, m, vcur, m, k, v))
}

func (fr *Frame) chanSend(x *ssa.Send, st *State, reach string) {
	vc := fr.vc
	if _, ok := vc.DB.Ghosts["field:chanSent"]; ok {
		hv := vc.heapVar("GF!chanSent", "(Array Int Int)")
		c := fr.val(x.Chan)
		vc.set(st, hv, vc.hsort[hv], fmt.Sprintf("(store %s %s (+ (select %s %s) 1))", vc.look(st, hv), c, vc.look(st, hv), c))
	}
	if _, ok := vc.DB.Ghosts["field:chanClosed"]; ok {
		hv := vc.heapVar("GF!chanClosed", "(Array Int Bool)")
		fr.safety(st, reach, "send-on-closed", fmt.Sprintf("(not (select %s %s))", vc.look(st, hv), fr.val(x.Chan)), x.Pos())
	}
}

func (fr *Frame) chanRecv(x *ssa.UnOp, st *State, reach string) {
	vc := fr.vc
	et := x.X.Type().Underlying().(*types.Chan).Elem()
	v := vc.fresh(fr.name(x), vc.sortOf(et))
	vc.assume(reach, vc.rangeFact(v, et))
	if x.CommaOk {
		fr.tuples[x] = []string{v, vc.fresh(fr.name(x)+".ok", "Bool")}
	} else {
		fr.vals[x] = v
	}
}

func trimPkg(s string) string {
	if i := strings.LastIndex(s, "/"); i >= 0 {
		return s[i+1:]
	}
	return s
}
