package main

import (
	"fmt"
	"go/constant"
	"go/token"
	"go/types"
	"math/big"
	"sort"
	"strings"

	"golang.org/x/tools/go/ssa"
)

// ---------------------------------------------------------------------------
// Obligations and the per-function VC context

type Obligation struct {
	Name     string // Cnn/func/kind[name]
	Func     string
	Kind     string // ensures requires invariant safety frame lock lemma vacuity
	Clause   string // source text of the clause
	Cond     string // reach condition (SMT)
	Goal     string // SMT
	NLines   int    // number of context lines visible to this obligation
	Pos      string
	Claimed  bool
	MustFail bool // vacuity probe: expected to be sat/unknown
	Soft     bool // a refuted probe is a warning, not a broken check
	vc       *VC
	Result   *SolverResult
	Abstract bool // proof leans on a havocked step (informational)
	Tagged   bool // requires-clause explicitly tagged with the property under check
}

// condRec: a branch condition and the number of context lines that define it
type condRec struct {
	term  string
	lines int
}

type VC struct {
	conds []condRec
	isQuant int
	oblNames map[string]int
	modElem map[string]bool
	useSeq bool // byte-sequence facts are instantiated at slicing/append (contract flag "seq")
	P        *Program
	DB       *ContractDB
	fn       *ssa.Function
	qname    string
	contract *FuncContract
	prop     string

	lines    []string // declarations, definitions, assertions in emission order
	declared map[string]bool
	hsort    map[string]string
	nsym     int
	nepoch   int
	obls     []*Obligation

	strConst map[string]string
	typeIDs  map[string]int
	typeOf   map[int]types.Type
	funcIDs  map[string]int
	usedSub  map[string]bool

	Warnings       []string
	Unmodelled     map[string]int
	Assumptions    map[string]bool
	CalleesUsed    map[string]string // callee -> how (contract/inline/model/havoc/summary)
	entry          *State
	callN          int
	safety         bool
	specDepth      int
	nsub           int
	typing         map[string]bool
	libVars        map[string]bool
	frameAllowed   map[string][]string
	globals        map[string]string
	symSorts       map[string]string
	symScan        int
	ContractErrors []string
}

type State struct {
	epoch int
	H     map[string]string
}

func (s *State) clone() *State {
	n := &State{epoch: s.epoch, H: make(map[string]string, len(s.H))}
	for k, v := range s.H {
		n.H[k] = v
	}
	return n
}

func NewVC(P *Program, DB *ContractDB, fn *ssa.Function, c *FuncContract, prop string) *VC {
	vc := &VC{P: P, DB: DB, fn: fn, contract: c, prop: prop,
		declared: map[string]bool{}, hsort: map[string]string{}, strConst: map[string]string{},
		typeIDs: map[string]int{}, typeOf: map[int]types.Type{}, funcIDs: map[string]int{}, usedSub: map[string]bool{},
		Unmodelled: map[string]int{}, Assumptions: map[string]bool{}, CalleesUsed: map[string]string{}}
	if fn != nil {
		vc.qname = QualName(fn)
	}
	vc.entry = &State{epoch: 0, H: map[string]string{}}
	vc.hsort["$alloc"] = "Int"
	return vc
}

// prelude entries: declarations always emitted; axioms only when the query
// mentions the symbol (keeps quantifier-free obligations quantifier-free, so the
// solvers answer sat with a model instead of unknown).
const preludeDecls = `(declare-datatypes ((Slice 0)) (((mk_slice (s_base Int) (s_off Int) (s_len Int) (s_cap Int)))))
(declare-datatypes ((Iface 0)) (((mk_iface (i_type Int) (i_val Int)))))
(declare-fun strlen (Int) Int)
(declare-fun str_cat (Int Int) Int)
(declare-fun str_sub (Int Int Int) Int)
(declare-fun str_at (Int Int) Int)
(declare-fun bytes2str (Slice Int) Int)
(declare-fun implements (Int Int) Bool)
(declare-fun subtag (Int) Int)
(declare-fun box_slice (Slice) Int)
(declare-fun unbox_slice (Int) Slice)
(declare-fun bitand (Int Int) Int)
(declare-fun bitor (Int Int) Int)
(declare-fun bitxor (Int Int) Int)
(declare-fun bitshl (Int Int) Int)
(declare-fun bitshr (Int Int) Int)
(declare-fun bitandnot (Int Int) Int)
(declare-fun bitnot (Int) Int)
(declare-fun seqof ((Array Int Int) Int Int) Int)
(declare-fun seq_len (Int) Int)
(declare-fun seq_cat (Int Int) Int)
(declare-fun seq_sub (Int Int Int) Int)
(declare-fun seq_at (Int Int) Int)
(declare-const seq_empty Int)
(declare-fun trig (Int) Bool)
`

var preludeAxioms = []struct{ sym, text string }{
	{"trig", "(assert (forall ((x Int)) (! (trig x) :pattern ((trig x)))))"},
	// byte sequences (abstract content of []byte values): uninterpreted ids with
	// length/concatenation/sub-sequence axioms; no associativity (layouts are
	// proved through the sub projections)
	{"seq_len", "(assert (forall ((s Int)) (! (>= (seq_len s) 0) :pattern ((seq_len s)))))\n(assert (= (seq_len seq_empty) 0))\n(assert (forall ((s Int)) (! (=> (= (seq_len s) 0) (= s seq_empty)) :pattern ((seq_len s)))))"},
	{"seqof", "(assert (forall ((r (Array Int Int)) (o Int) (l Int)) (! (=> (>= l 0) (= (seq_len (seqof r o l)) l)) :pattern ((seqof r o l)))))\n(assert (forall ((r (Array Int Int)) (o Int) (l Int) (i Int)) (! (=> (and (<= 0 i) (< i l)) (= (seq_at (seqof r o l) i) (select r (+ o i)))) :pattern ((seq_at (seqof r o l) i)))))"},
	{"seq_cat", "(assert (forall ((a Int) (b Int)) (! (and (= (seq_len (seq_cat a b)) (+ (seq_len a) (seq_len b))) (= (seq_sub (seq_cat a b) 0 (seq_len a)) a) (= (seq_sub (seq_cat a b) (seq_len a) (+ (seq_len a) (seq_len b))) b)) :pattern ((seq_cat a b)))))\n(assert (forall ((a Int)) (! (and (= (seq_cat a seq_empty) a) (= (seq_cat seq_empty a) a)) :pattern ((seq_cat a seq_empty)) :pattern ((seq_cat seq_empty a)))))"},
	{"seq_sub", "(assert (forall ((a Int) (l Int) (h Int)) (! (=> (and (<= 0 l) (<= l h) (<= h (seq_len a))) (= (seq_len (seq_sub a l h)) (- h l))) :pattern ((seq_sub a l h)))))\n(assert (forall ((a Int)) (! (= (seq_sub a 0 (seq_len a)) a) :pattern ((seq_sub a 0 (seq_len a))))))\n(assert (forall ((a Int) (l Int) (h Int) (l2 Int) (h2 Int)) (! (=> (and (<= 0 l) (<= l h) (<= h (seq_len a)) (<= 0 l2) (<= l2 h2) (<= h2 (- h l))) (= (seq_sub (seq_sub a l h) l2 h2) (seq_sub a (+ l l2) (+ l h2)))) :pattern ((seq_sub (seq_sub a l h) l2 h2)))))"},
	{"strlen", "(assert (forall ((s Int)) (! (>= (strlen s) 0) :pattern ((strlen s)))))\n(assert (= (strlen 0) 0))"},
	{"str_cat", "(assert (forall ((a Int) (b Int)) (! (= (strlen (str_cat a b)) (+ (strlen a) (strlen b))) :pattern ((str_cat a b)))))"},
	{"str_sub", "(assert (forall ((a Int) (l Int) (h Int)) (! (=> (and (<= 0 l) (<= l h)) (= (strlen (str_sub a l h)) (- h l))) :pattern ((str_sub a l h)))))"},
	{"str_at", "(assert (forall ((a Int) (i Int)) (! (and (<= 0 (str_at a i)) (< (str_at a i) 256)) :pattern ((str_at a i)))))"},
	{"box_slice", "(assert (forall ((s Slice)) (! (= (unbox_slice (box_slice s)) s) :pattern ((box_slice s)))))"},
	{"bitand", "(assert (forall ((a Int) (b Int)) (! (=> (and (>= a 0) (>= b 0)) (and (>= (bitand a b) 0) (<= (bitand a b) a) (<= (bitand a b) b))) :pattern ((bitand a b)))))"},
	{"bitor", "(assert (forall ((a Int) (b Int)) (! (=> (and (>= a 0) (>= b 0)) (and (>= (bitor a b) a) (>= (bitor a b) b))) :pattern ((bitor a b)))))"},
}

func (vc *VC) emit(s string) { vc.lines = append(vc.lines, s) }

func (vc *VC) declare(name, sort string) string {
	if !vc.declared[name] {
		vc.declared[name] = true
		vc.emit(fmt.Sprintf("(declare-const %s %s)", name, sort))
	}
	return name
}

func (vc *VC) declareFun(name string, args []string, ret string) string {
	if !vc.declared[name] {
		vc.declared[name] = true
		vc.emit(fmt.Sprintf("(declare-fun %s (%s) %s)", name, strings.Join(args, " "), ret))
	}
	return name
}

func (vc *VC) fresh(hint, sort string) string {
	vc.nsym++
	return vc.declare(fmt.Sprintf("%s!%d", sym(hint), vc.nsym), sort)
}

// def introduces a named abbreviation for a term (unguarded, always consistent).
func (vc *VC) def(hint, sort, term string) string {
	if isAtom(term) {
		return term
	}
	vc.nsym++
	name := fmt.Sprintf("%s!%d", sym(hint), vc.nsym)
	vc.declared[name] = true
	vc.emit(fmt.Sprintf("(define-fun %s () %s %s)", name, sort, term))
	return name
}

func isAtom(t string) bool { return !strings.ContainsAny(t, " (") }

// assume adds a fact guarded by the reach condition.
func (vc *VC) assume(reach, fact string) {
	if fact == "true" {
		return
	}
	vc.emit("(assert " + sImp(reach, fact) + ")")
}

func (vc *VC) warn(f string, a ...any) {
	w := fmt.Sprintf(f, a...)
	for _, x := range vc.Warnings {
		if x == w {
			return
		}
	}
	vc.Warnings = append(vc.Warnings, w)
}

func (vc *VC) oblige(kind, name, clause, cond, goal string, pos token.Pos, claimed bool) *Obligation {
	if vc.oblNames == nil {
		vc.oblNames = map[string]int{}
	}
	vc.oblNames[name]++
	if n := vc.oblNames[name]; n > 1 {
		name = fmt.Sprintf("%s#%d", name, n)
	}
	o := &Obligation{Name: name, Func: vc.qname, Kind: kind, Clause: clause, Cond: cond, Goal: goal, NLines: len(vc.lines), Claimed: claimed, vc: vc}
	if pos.IsValid() {
		p := vc.P.Prog.Fset.Position(pos)
		o.Pos = fmt.Sprintf("%s:%d", relRepo(p.Filename), p.Line)
	}
	vc.obls = append(vc.obls, o)
	// later code may rely on it
	vc.assume(cond, goal)
	return o
}

// SplitConds: the (up to n) most recent distinct branch conditions visible to
// the obligation; used to retry an undecided query by case analysis.
func (o *Obligation) SplitConds(n int) []string {
	var out []string
	seen := map[string]bool{}
	for i := len(o.vc.conds) - 1; i >= 0 && len(out) < n; i-- {
		c := o.vc.conds[i]
		if c.lines > o.NLines || seen[c.term] {
			continue
		}
		seen[c.term] = true
		out = append(out, c.term)
	}
	return out
}

// Script renders the SMT-LIB query of an obligation.
func (o *Obligation) Script() string {
	var body strings.Builder
	for _, l := range o.vc.lines[:o.NLines] {
		body.WriteString(l)
		body.WriteByte('\n')
	}
	body.WriteString("(assert " + sAnd(o.Cond, sNot(o.Goal)) + ")\n")
	b := body.String()
	var sb strings.Builder
	sb.WriteString(preludeDecls)
	for _, ax := range preludeAxioms {
		if strings.Contains(b, "("+ax.sym+" ") {
			sb.WriteString(ax.text)
			sb.WriteByte('\n')
		}
	}
	sb.WriteString(b)
	return sb.String()
}

// ---------------------------------------------------------------------------
// Sorts, type ids, constants

func (vc *VC) sortOf(t types.Type) string {
	switch u := t.Underlying().(type) {
	case *types.Basic:
		if u.Info()&types.IsBoolean != 0 {
			return "Bool"
		}
		return "Int"
	case *types.Slice:
		return "Slice"
	case *types.Interface:
		if _, ok := t.(*types.TypeParam); ok {
			return "Int"
		}
		return "Iface"
	}
	return "Int"
}

func zeroOf(sort string) string {
	switch sort {
	case "Bool":
		return "false"
	case "Slice":
		return "(mk_slice 0 0 0 0)"
	case "Iface":
		return "(mk_iface 0 0)"
	}
	if strings.HasPrefix(sort, "(Array ") {
		in, out := arraySorts(sort)
		_ = in
		return fmt.Sprintf("((as const %s) %s)", sort, zeroOf(out))
	}
	return "0"
}

// arraySorts splits "(Array A B)".
func arraySorts(s string) (string, string) {
	body := strings.TrimSuffix(strings.TrimPrefix(s, "(Array "), ")")
	d := 0
	for i, c := range body {
		switch c {
		case '(':
			d++
		case ')':
			d--
		case ' ':
			if d == 0 {
				return body[:i], body[i+1:]
			}
		}
	}
	return body, ""
}

func (vc *VC) typeID(t types.Type) string {
	k := typeKey(t)
	id, ok := vc.typeIDs[k]
	if !ok {
		id = len(vc.typeIDs) + 1
		vc.typeIDs[k] = id
		vc.typeOf[id] = t
	}
	return fmt.Sprint(id)
}

func (vc *VC) strLit(s string) string {
	if s == "" {
		return "0"
	}
	if c, ok := vc.strConst[s]; ok {
		return c
	}
	id := int64(1000000 + len(vc.strConst))
	c := fmt.Sprint(id)
	vc.strConst[s] = c
	vc.emit(fmt.Sprintf("(assert (= (strlen %s) %d))", c, len(s)))
	return c
}

func (vc *VC) funcConst(name string) string {
	id, ok := vc.funcIDs[name]
	if !ok {
		id = 5000000 + len(vc.funcIDs)
		vc.funcIDs[name] = id
	}
	return fmt.Sprint(id)
}

type intRange struct {
	lo, hi *big.Int
	bits   int
	signed bool
}

func basicRange(t types.Type) (r intRange, ok bool) {
	b, isB := t.Underlying().(*types.Basic)
	if !isB || b.Info()&types.IsInteger == 0 {
		return r, false
	}
	bits, signed := 64, true
	switch b.Kind() {
	case types.Int8:
		bits = 8
	case types.Int16:
		bits = 16
	case types.Int32:
		bits = 32
	case types.Int64, types.Int, types.UntypedInt, types.UntypedRune:
		bits = 64
	case types.Uint8:
		bits, signed = 8, false
	case types.Uint16:
		bits, signed = 16, false
	case types.Uint32:
		bits, signed = 32, false
	case types.Uint64, types.Uint, types.Uintptr:
		bits, signed = 64, false
	}
	one := big.NewInt(1)
	if signed {
		hi := new(big.Int).Lsh(one, uint(bits-1))
		lo := new(big.Int).Neg(hi)
		hi = hi.Sub(hi, one)
		return intRange{lo, hi, bits, true}, true
	}
	hi := new(big.Int).Lsh(one, uint(bits))
	hi.Sub(hi, one)
	return intRange{big.NewInt(0), hi, bits, false}, true
}

func bigLit(n *big.Int) string {
	if n.Sign() < 0 {
		return "(- " + new(big.Int).Neg(n).String() + ")"
	}
	return n.String()
}

// rangeFact is the type-range constraint of a value entering the function.
func (vc *VC) rangeFact(term string, t types.Type) string {
	if r, ok := basicRange(t); ok {
		return fmt.Sprintf("(and (<= %s %s) (<= %s %s))", bigLit(r.lo), term, term, bigLit(r.hi))
	}
	switch t.Underlying().(type) {
	case *types.Slice:
		return fmt.Sprintf("(and (<= 0 (s_len %s)) (<= (s_len %s) (s_cap %s)) (<= 0 (s_off %s)) (=> (= (s_base %s) 0) (= (s_cap %s) 0)))", term, term, term, term, term, term)
	case *types.Interface:
		return fmt.Sprintf("(and (>= (i_type %s) 0) (=> (= (i_type %s) 0) (= (i_val %s) 0)))", term, term, term)
	}
	return "true"
}

// wrap reduces an arithmetic result to the machine range of narrow types
// (mathematical integers are kept for 64-bit types, assumption arith64-no-overflow).
func (vc *VC) wrap(term string, t types.Type) string {
	r, ok := basicRange(t)
	if !ok {
		return term
	}
	if r.bits == 64 {
		if !r.signed {
			vc.Assumptions["arith64-no-overflow"] = true
		} else {
			vc.Assumptions["arith64-no-overflow"] = true
		}
		return term
	}
	m := new(big.Int).Lsh(big.NewInt(1), uint(r.bits)).String()
	if !r.signed {
		return fmt.Sprintf("(mod %s %s)", term, m)
	}
	h := new(big.Int).Lsh(big.NewInt(1), uint(r.bits-1)).String()
	return fmt.Sprintf("(- (mod (+ %s %s) %s) %s)", term, h, m, h)
}

func (vc *VC) constTerm(c *ssa.Const) string {
	sort := vc.sortOf(c.Type())
	if c.Value == nil {
		return zeroOf(sort)
	}
	switch c.Value.Kind() {
	case constant.Bool:
		if constant.BoolVal(c.Value) {
			return "true"
		}
		return "false"
	case constant.Int:
		if v, ok := constant.Int64Val(c.Value); ok {
			return sInt(v)
		}
		if v, ok := constant.Uint64Val(c.Value); ok {
			return fmt.Sprint(v)
		}
		return c.Value.ExactString()
	case constant.String:
		return vc.strLit(constant.StringVal(c.Value))
	case constant.Float:
		f, _ := constant.Float64Val(c.Value)
		if f == float64(int64(f)) {
			return sInt(int64(f))
		}
		return vc.fresh("float", "Int")
	}
	return vc.fresh("const", sort)
}

// ---------------------------------------------------------------------------
// Heap

func (vc *VC) heapVar(name, sort string) string {
	name = sym(name)
	if s, ok := vc.hsort[name]; ok {
		if s != sort {
			vc.warn("heap var %s used with sorts %s and %s", name, s, sort)
		}
		return name
	}
	vc.hsort[name] = sort
	return name
}

func (vc *VC) look(st *State, name string) string {
	if v, ok := st.H[name]; ok {
		return v
	}
	s := fmt.Sprintf("%s@e%d", name, st.epoch)
	sort, ok := vc.hsort[name]
	if !ok {
		panic("unregistered heap var " + name)
	}
	if !vc.declared[s] {
		vc.declare(s, sort)
		if (name == "$escaped" || name == "$escapedP") && st.epoch == 0 {
			vc.emit(fmt.Sprintf("(assert (= %s ((as const %s) false)))", s, sort))
		}
		if strings.HasPrefix(name, "W!") && st.epoch == 0 {
			// nothing has been assigned at function entry
			vc.emit(fmt.Sprintf("(assert (= %s ((as const %s) false)))", s, sort))
		}
	}
	return s
}

func (vc *VC) set(st *State, name, sort, term string) {
	st.H[name] = vc.def(name, sort, term)
}

func (vc *VC) newEpoch() int { vc.nepoch++; return vc.nepoch }

// havocAll forgets every heap fact except the lockset and the allocation order.
func (vc *VC) havocAll(st *State, reach string) {
	alloc := vc.look(st, "$alloc")
	held := ""
	if _, ok := vc.hsort["$held"]; ok {
		held = vc.look(st, "$held")
	}
	keep := map[string]string{}
	for k, v := range st.H {
		if strings.HasPrefix(k, "$defer") || strings.HasPrefix(k, "$local!") {
			keep[k] = v
		}
	}
	st.epoch = vc.newEpoch()
	st.H = keep
	na := vc.fresh("$alloc", "Int")
	vc.assume("true", fmt.Sprintf("(>= %s %s)", na, alloc))
	st.H["$alloc"] = na
	if held != "" {
		st.H["$held"] = held
		vc.Assumptions["locks-balanced: a callee without contract leaves the caller's lockset unchanged"] = true
	}
}

func (vc *VC) havocVar(st *State, name string) {
	sort := vc.hsort[name]
	if name == "$alloc" {
		old := vc.look(st, name)
		na := vc.fresh("$alloc", "Int")
		vc.assume("true", fmt.Sprintf("(>= %s %s)", na, old))
		st.H[name] = na
		return
	}
	st.H[name] = vc.fresh(name, sort)
	if w := "W!" + name; vc.hsort[w] != "" && !strings.HasPrefix(name, "W!") {
		st.H[w] = vc.fresh(w, vc.hsort[w])
	}
}

type mergeIn struct {
	cond string
	st   *State
}

func (vc *VC) merge(ins []mergeIn) *State {
	if len(ins) == 1 {
		return ins[0].st.clone()
	}
	same := true
	for _, in := range ins[1:] {
		if in.st.epoch != ins[0].st.epoch {
			same = false
		}
	}
	out := &State{H: map[string]string{}}
	keys := map[string]bool{}
	if same {
		out.epoch = ins[0].st.epoch
		for _, in := range ins {
			for k := range in.st.H {
				keys[k] = true
			}
		}
	} else {
		out.epoch = vc.newEpoch()
		for k := range vc.hsort {
			keys[k] = true
		}
	}
	ks := make([]string, 0, len(keys))
	for k := range keys {
		ks = append(ks, k)
	}
	sort.Strings(ks)
	for _, k := range ks {
		first := vc.look(ins[0].st, k)
		all := true
		for _, in := range ins[1:] {
			if vc.look(in.st, k) != first {
				all = false
			}
		}
		if all {
			if same {
				if _, ok := ins[0].st.H[k]; ok {
					out.H[k] = first
				}
			} else {
				out.H[k] = first
			}
			continue
		}
		var m string
		if vc.iteMerge() {
			var pairs [][2]string
			for _, in := range ins {
				pairs = append(pairs, [2]string{in.cond, vc.look(in.st, k)})
			}
			m = vc.def(k, vc.hsort[k], iteChain(pairs))
		} else {
			m = vc.fresh(k, vc.hsort[k])
			for _, in := range ins {
				vc.emit("(assert " + sImp(in.cond, sEq(m, vc.look(in.st, k))) + ")")
			}
		}
		out.H[k] = m
	}
	return out
}

// Addr is a statically resolved memory location.
type Addr struct {
	Kind string // field cell elem global
	Var  string
	Ref  string
	Idx  string
	Sort string
	Typ  types.Type
}

func (vc *VC) read(st *State, a *Addr) string {
	if a.Kind == "const" {
		return a.Ref
	}
	h := vc.look(st, a.Var)
	switch a.Kind {
	case "field", "cell":
		return fmt.Sprintf("(select %s %s)", h, a.Ref)
	case "elem":
		return fmt.Sprintf("(select (select %s %s) %s)", h, a.Ref, a.Idx)
	case "global":
		return h
	}
	panic("bad addr")
}

func (vc *VC) write(st *State, a *Addr, v string) {
	if a.Kind == "const" {
		vc.warn("store to constglobal outside init in %s", vc.qname)
		return
	}
	h := vc.look(st, a.Var)
	sort := vc.hsort[a.Var]
	switch a.Kind {
	case "field", "cell":
		vc.set(st, a.Var, sort, fmt.Sprintf("(store %s %s %s)", h, a.Ref, v))
		if w := "W!" + a.Var; vc.hsort[w] != "" {
			vc.set(st, w, vc.hsort[w], fmt.Sprintf("(store %s %s true)", vc.look(st, w), a.Ref))
		}
	case "elem":
		vc.set(st, a.Var, sort, fmt.Sprintf("(store %s %s (store (select %s %s) %s %s))", h, a.Ref, h, a.Ref, a.Idx, v))
	case "global":
		vc.set(st, a.Var, sort, v)
	}
}

func structOf(t types.Type) (*types.Struct, bool) {
	s, ok := t.Underlying().(*types.Struct)
	return s, ok
}

func isAggregate(t types.Type) bool {
	switch t.Underlying().(type) {
	case *types.Struct, *types.Array:
		return true
	}
	return false
}

// fieldAddr gives the location of field i of the struct T at ref.
func (vc *VC) fieldAddr(T types.Type, i int, ref string) (*Addr, string) {
	st, _ := structOf(T)
	f := st.Field(i)
	key := typeKey(T) + "." + f.Name()
	if isAggregate(f.Type()) {
		fn := vc.subFun(key)
		return nil, fmt.Sprintf("(%s %s)", fn, ref)
	}
	sort := vc.sortOf(f.Type())
	hv := vc.heapVar("F!"+key, "(Array Int "+sort+")")
	if n, ok := T.(*types.Named); ok && !inModule(n.Obj().Pkg()) && !vc.DB.LibKeeps[typeKey(T)] {
		if vc.libVars == nil {
			vc.libVars = map[string]bool{}
		}
		vc.libVars[hv] = true
	}
	return &Addr{Kind: "field", Var: hv, Ref: ref, Sort: sort, Typ: f.Type()}, fmt.Sprintf("(%s %s)", vc.addrFun("fa!"+key), ref)
}

func (vc *VC) subFun(key string) string {
	fn := sym("sub!" + key)
	if !vc.declared[fn] {
		vc.declareFun(fn, []string{"Int"}, "Int")
		inv := sym("subinv!" + key)
		vc.declareFun(inv, []string{"Int"}, "Int")
		vc.nsub++
		// sub-object addresses: negative region, injective, tagged per field
		vc.emit(fmt.Sprintf("(assert (forall ((r Int)) (! (and (= (%s (%s r)) r) (< (%s r) (- 1000000)) (= (subtag (%s r)) %d)) :pattern ((%s r)))))", inv, fn, fn, fn, vc.nsub, fn))
	}
	return fn
}

func (vc *VC) addrFun(name string) string {
	fn := sym(name)
	vc.declareFun(fn, []string{"Int"}, "Int")
	return fn
}

func (vc *VC) cellAddr(elem types.Type, ref string) *Addr {
	sort := vc.sortOf(elem)
	hv := vc.heapVar("C!"+typeKey(elem), "(Array Int "+sort+")")
	base := elem
	for {
		if p, ok := base.(*types.Pointer); ok {
			base = p.Elem()
			continue
		}
		break
	}
	if n, ok := base.(*types.Named); ok && inModule(n.Obj().Pkg()) {
		// variables of module-declared (pointer) types are module-private state
		if vc.modElem == nil {
			vc.modElem = map[string]bool{}
		}
		vc.modElem[hv] = true
	}
	return &Addr{Kind: "cell", Var: hv, Ref: ref, Sort: sort, Typ: elem}
}

func (vc *VC) elemVar(elem types.Type) string {
	sort := vc.sortOf(elem)
	hv := vc.heapVar("E!"+typeKey(elem), "(Array Int (Array Int "+sort+"))")
	if n, ok := elem.(*types.Named); ok && inModule(n.Obj().Pkg()) {
		// slices of module-declared element types are module-private state
		if vc.modElem == nil {
			vc.modElem = map[string]bool{}
		}
		vc.modElem[hv] = true
	}
	return hv
}

func (vc *VC) freshRef(st *State, reach, hint string) string {
	alloc := vc.look(st, "$alloc")
	r := vc.def(hint, "Int", fmt.Sprintf("(+ %s 1)", alloc))
	st.H["$alloc"] = r
	_ = reach
	return r
}

// zeroStruct initialises every scalar field of the struct at ref.
func (vc *VC) zeroStruct(st *State, T types.Type, ref string, depth int) {
	s, ok := structOf(T)
	if !ok || depth > 3 {
		return
	}
	for i := 0; i < s.NumFields(); i++ {
		a, sub := vc.fieldAddr(T, i, ref)
		if a != nil {
			vc.write(st, a, zeroOf(a.Sort))
		} else {
			vc.zeroStruct(st, s.Field(i).Type(), sub, depth+1)
		}
	}
}

// loadStruct reads a struct value: a fresh id whose projections equal the fields.
func (vc *VC) loadStruct(st *State, reach string, T types.Type, ref string) string {
	s, ok := structOf(T)
	v := vc.fresh("sv", "Int")
	if !ok {
		return v
	}
	for i := 0; i < s.NumFields(); i++ {
		a, _ := vc.fieldAddr(T, i, ref)
		if a != nil {
			vc.assume(reach, sEq(fmt.Sprintf("(%s %s)", vc.projFun(T, i), v), vc.read(st, a)))
		}
	}
	return v
}

func (vc *VC) storeStruct(st *State, T types.Type, ref, val string) {
	s, ok := structOf(T)
	if !ok {
		return
	}
	for i := 0; i < s.NumFields(); i++ {
		a, _ := vc.fieldAddr(T, i, ref)
		if a != nil {
			vc.write(st, a, fmt.Sprintf("(%s %s)", vc.projFun(T, i), val))
		}
	}
}

func (vc *VC) projFun(T types.Type, i int) string {
	s, _ := structOf(T)
	f := s.Field(i)
	name := sym("sf!" + typeKey(T) + "." + f.Name())
	sort := "Int"
	if !isAggregate(f.Type()) {
		sort = vc.sortOf(f.Type())
	}
	if !vc.declared[name] {
		vc.declareFun(name, []string{"Int"}, sort)
		vc.emit(fmt.Sprintf("(assert (= (%s 0) %s))", name, zeroOf(sort)))
	}
	return name
}

// globalRef is the address of a package-level aggregate variable: a distinct
// negative constant (allocated objects are positive, nil is 0).
func (vc *VC) globalRef(pkgPath, name string) string {
	key := sym("gref!" + pkgPath + "." + name)
	if vc.globals == nil {
		vc.globals = map[string]string{}
	}
	if t, ok := vc.globals[key]; ok {
		return t
	}
	t := fmt.Sprintf("(- %d)", len(vc.globals)+1)
	vc.globals[key] = t
	vc.declared[key] = true
	vc.emit(fmt.Sprintf("(define-fun %s () Int %s)", key, t))
	return key
}

// havocLib: effect of a call into a library package declared with "libframe":
// element arrays, cells of address-taken locals and fields of library types are
// forgotten; fields of module struct types, module globals, maps and ghost
// state are kept (assumption lib-frame, listed in the evidence).
func (vc *VC) havocLib(st *State) {
	alloc0 := vc.look(vc.entry, "$alloc")
	esc := ""
	if _, ok := vc.hsort["$escaped"]; ok {
		esc = vc.look(st, "$escaped")
	}
	escP := ""
	if _, ok := vc.hsort["$escapedP"]; ok {
		escP = vc.look(st, "$escapedP")
	}
	for _, v := range sortedKeys(vc.hsort) {
		if ((strings.HasPrefix(v, "E!") || strings.HasPrefix(v, "C!")) && !vc.modElem[v]) || vc.libVars[v] {
			old := vc.look(st, v)
			vc.havocVar(st, v)
			if strings.HasPrefix(v, "C!") {
				// a variable whose address was never handed to a library keeps its value
				nw := vc.look(st, v)
				if escP != "" {
					vc.emit(fmt.Sprintf("(assert (forall ((b Int)) (! (=> (not (select %s b)) (= (select %s b) (select %s b))) :pattern ((select %s b)))))", escP, nw, old, nw))
				} else {
					vc.emit(fmt.Sprintf("(assert (= %s %s))", nw, old))
				}
			}
			if strings.HasPrefix(v, "E!") {
				// backing arrays allocated by this function and never handed to a
				// library call keep their contents (a library cannot reach them)
				nw := vc.look(st, v)
				cond := fmt.Sprintf("(> b %s)", alloc0)
				if esc != "" {
					cond = fmt.Sprintf("(and (> b %s) (not (select %s b)))", alloc0, esc)
				}
				vc.emit(fmt.Sprintf("(assert (forall ((b Int)) (! (=> %s (= (select %s b) (select %s b))) :pattern ((select %s b)))))", cond, nw, old, nw))
			}
		}
	}
	vc.havocVar(st, "$alloc")
}

// markEscaped records that the backing array of a slice was handed to code
// without a precise contract.
func (vc *VC) markEscaped(st *State, slice string) {
	vc.markEscapedBase(st, "(s_base "+slice+")")
}

func (vc *VC) markEscapedRef(st *State, ref string) {
	vc.markEscapedIn(st, "$escapedP", ref)
}

func (vc *VC) markEscapedBase(st *State, ref string) {
	vc.markEscapedIn(st, "$escaped", ref)
}

func (vc *VC) markEscapedIn(st *State, hv, ref string) {
	if _, ok := vc.hsort[hv]; !ok {
		vc.hsort[hv] = "(Array Int Bool)"
	}
	cur := vc.look(st, hv)
	vc.set(st, hv, "(Array Int Bool)", fmt.Sprintf("(store %s %s true)", cur, ref))
}

func (vc *VC) typingFact(f string) {
	if vc.typing == nil {
		vc.typing = map[string]bool{}
	}
	if vc.typing[f] {
		return
	}
	vc.typing[f] = true
	vc.emit("(assert " + f + ")")
}

// viewOf: the abstract byte sequence held by slice term s in state st.
func (vc *VC) viewOf(st *State, s string) string {
	ev := vc.elemVar(types.Typ[types.Uint8])
	return fmt.Sprintf("(seqof (select %s (s_base %s)) (s_off %s) (s_len %s))", vc.look(st, ev), s, s, s)
}

func isByteSlice(t types.Type) bool {
	sl, ok := t.Underlying().(*types.Slice)
	if !ok {
		return false
	}
	b, ok := sl.Elem().Underlying().(*types.Basic)
	return ok && b.Kind() == types.Uint8
}

// constGlobalTerm: value of a package-level variable that is assigned once, in
// init, with a fresh object (pointer: a distinct negative address; interface: a
// non-nil interface value boxing such an address under a distinct dynamic type id).
func (vc *VC) constGlobalTerm(pkgPath, name, sort string) string {
	ref := vc.globalRef(pkgPath, "@"+name)
	if sort == "Iface" {
		return fmt.Sprintf("(mk_iface (+ 900000 (- %s)) %s)", ref, ref)
	}
	return ref
}

// quantified: the contract of the function under verification has a quantified clause
func (vc *VC) quantified() bool {
	if vc.contract == nil {
		return false
	}
	if vc.isQuant == 0 {
		vc.isQuant = 1
		has := func(cs []*Clause) bool {
			for _, c := range cs {
				if strings.Contains(c.Src, "forall") || strings.Contains(c.Src, "exists") {
					return true
				}
			}
			return false
		}
		if has(vc.contract.Requires) || has(vc.contract.Ensures) {
			vc.isQuant = 2
		}
		for _, l := range vc.contract.Loops {
			if has(l.Invariants) {
				vc.isQuant = 2
			}
		}
	}
	return vc.isQuant == 2
}

// slAt: element access function used inside quantified contract clauses.
func (vc *VC) slAt(sort string) string {
	fn := sym("sl_at!" + sort)
	if !vc.declared[fn] {
		vc.declareFun(fn, []string{"(Array Int " + sort + ")", "Int", "Int"}, sort)
		vc.emit(fmt.Sprintf("(assert (forall ((r (Array Int %s)) (o Int) (i Int)) (! (= (%s r o i) (select r (+ o i))) :pattern ((%s r o i)))))", sort, fn, fn))
	}
	return fn
}

// iteMerge: join points define merged values as if-then-else terms instead of
// fresh constants constrained per incoming edge (contract flag "ite-merge").
func (vc *VC) iteMerge() bool {
	return vc.contract != nil && vc.contract.Flags["ite-merge"]
}

// iteChain: (ite c1 v1 (ite c2 v2 ... vn)); the last value needs no guard (some
// incoming edge is taken whenever the join is reached).
func iteChain(pairs [][2]string) string {
	t := pairs[len(pairs)-1][1]
	for i := len(pairs) - 2; i >= 0; i-- {
		t = sIte(pairs[i][0], pairs[i][1], t)
	}
	return t
}
