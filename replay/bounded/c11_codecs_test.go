package codec

// BOUNDED stand-in for C11 on the reflection-driven paths of the plain and form
// codecs (reflect is outside the VC generator's reach): the REAL Marshal and
// Unmarshal are run on an enumerated value domain and on every byte string over
// a small alphabet up to a bound.
//   round trip : Unmarshal(Marshal(v)) == v, element order included
//   garbage    : Unmarshal(arbitrary bytes) returns an error or a value, never panics
// Bound (GOVC_BOUND): maximal length of generated strings / byte strings.

import (
	"fmt"
	"os"
	"reflect"
	"strconv"
	"testing"
)

type c11Str string
type c11Bytes []byte

type c11Form struct {
	Name  string   `form:"name"`
	N     int      `form:"n"`
	U8    uint8    `form:"u8"`
	Ok    bool     `form:"ok"`
	F     float64  `form:"f"`
	Tags  []string `form:"tags"`
	Nums  []int    `form:"nums"`
	Trip  [3]int   `form:"trip"`
	Plain string
}

func c11Strings(alpha []string, max int) []string {
	out := []string{""}
	prev := []string{""}
	for l := 1; l <= max; l++ {
		var next []string
		for _, p := range prev {
			for _, a := range alpha {
				next = append(next, p+a)
			}
		}
		out = append(out, next...)
		prev = next
	}
	return out
}

func c11NoPanic(t *testing.T, what string, f func()) {
	defer func() {
		if p := recover(); p != nil {
			t.Fatalf("REPLAYED (bounded): %s panicked: %v", what, p)
		}
	}()
	f()
}

func TestBoundedC11Codecs(t *testing.T) {
	max := 3
	if v, err := strconv.Atoi(os.Getenv("GOVC_BOUND")); err == nil && v > 0 {
		max = v
	}
	strs := c11Strings([]string{"a", "&", "=", "%", "+", " ", "ü", "1"}, max)
	cases := 0

	// ---- plain codec: round trip
	pc := new(PlainCodec)
	for _, s := range strs {
		b, err := pc.Marshal(s)
		if err != nil {
			t.Fatalf("plain marshal %q: %v", s, err)
		}
		var got string
		if err := pc.Unmarshal(b, &got); err != nil || got != s {
			t.Fatalf("REPLAYED (bounded): plain string round trip %q -> %q (%v)", s, got, err)
		}
		var gotN c11Str
		b, _ = pc.Marshal(c11Str(s))
		if err := pc.Unmarshal(b, &gotN); err != nil || string(gotN) != s {
			t.Fatalf("REPLAYED (bounded): plain named-string round trip %q -> %q (%v)", s, gotN, err)
		}
		var gotB []byte
		b, _ = pc.Marshal([]byte(s))
		if err := pc.Unmarshal(b, &gotB); err != nil || string(gotB) != s {
			t.Fatalf("REPLAYED (bounded): plain bytes round trip %q -> %q (%v)", s, gotB, err)
		}
		var gotNB c11Bytes
		b, _ = pc.Marshal(c11Bytes(s))
		if err := pc.Unmarshal(b, &gotNB); err != nil || string(gotNB) != s {
			t.Fatalf("REPLAYED (bounded): plain named-bytes round trip %q -> %q (%v)", s, gotNB, err)
		}
		cases += 4
	}
	for _, n := range []int64{-9223372036854775808, -129, -1, 0, 1, 127, 128, 9223372036854775807} {
		b, _ := pc.Marshal(n)
		var got int64
		if err := pc.Unmarshal(b, &got); err != nil || got != n {
			t.Fatalf("REPLAYED (bounded): plain int64 round trip %d -> %d (%v)", n, got, err)
		}
		cases++
	}
	for _, n := range []uint64{0, 1, 255, 256, 9223372036854775807, 9223372036854775808, 18446744073709551615} {
		b, _ := pc.Marshal(n)
		var got uint64
		if err := pc.Unmarshal(b, &got); err != nil || got != n {
			t.Fatalf("REPLAYED (bounded): plain uint64 round trip %d -> %d (%v)", n, got, err)
		}
		cases++
	}
	for _, f := range []float64{0, 1.5, -2.25, 1e300, 5e-324} {
		b, _ := pc.Marshal(f)
		var got float64
		if err := pc.Unmarshal(b, &got); err != nil || got != f {
			t.Fatalf("REPLAYED (bounded): plain float64 round trip %v -> %v (%v)", f, got, err)
		}
		cases++
	}
	for _, v := range []bool{true, false} {
		b, _ := pc.Marshal(v)
		var got bool
		if err := pc.Unmarshal(b, &got); err != nil || got != v {
			t.Fatalf("REPLAYED (bounded): plain bool round trip %v -> %v (%v)", v, got, err)
		}
		cases++
	}

	// ---- form codec: round trip of a struct with ordered multi-values
	fc := new(FormCodec)
	short := c11Strings([]string{"a", "&", "=", "%", "ü"}, 2)
	for i, s := range short {
		for j := 0; j < 3; j++ {
			in := c11Form{Name: s, N: i - 3, U8: uint8(i * 37), Ok: i%2 == 0, F: float64(i) / 4, Plain: s + "x"}
			for k := 0; k < j+1; k++ {
				in.Tags = append(in.Tags, fmt.Sprintf("%s%d", s, k))
				in.Nums = append(in.Nums, k*10-i)
			}
			in.Trip = [3]int{i, i + 1, i + 2}
			if j == 2 {
				// empty elements keep their position
				in.Tags = []string{"", s, ""}
			}
			b, err := fc.Marshal(&in)
			if err != nil {
				t.Fatalf("form marshal: %v", err)
			}
			var out c11Form
			c11NoPanic(t, fmt.Sprintf("form unmarshal of %q", b), func() { err = fc.Unmarshal(b, &out) })
			if err != nil {
				t.Fatalf("REPLAYED (bounded): form unmarshal of its own encoding %q failed: %v", b, err)
			}
			if !reflect.DeepEqual(in, out) {
				t.Fatalf("REPLAYED (bounded): form round trip differs (element order included)\n in: %+v\nout: %+v\nwire: %s", in, out, b)
			}
			cases++
		}
	}

	// ---- garbage: every byte string over the alphabet, into every target kind
	garbage := c11Strings([]string{"a", "&", "=", "%", "1", "\xff", "t=", "trip=1&trip=2&"}, max)
	for _, g := range garbage {
		data := []byte(g)
		targets := []func() interface{}{
			func() interface{} { return new(string) }, func() interface{} { return new([]byte) },
			func() interface{} { return new(int8) }, func() interface{} { return new(uint16) },
			func() interface{} { return new(bool) }, func() interface{} { return new(float32) },
			func() interface{} { return new(c11Str) }, func() interface{} { return new(c11Bytes) },
			func() interface{} { return new(c11Form) }, func() interface{} { return new(map[string][]string) },
			func() interface{} { return new(interface{}) }, func() interface{} { return new(struct{ X chan int }) },
		}
		for ti, mk := range targets {
			c11NoPanic(t, fmt.Sprintf("plain unmarshal of %q into target %d", g, ti), func() { _ = pc.Unmarshal(append([]byte(nil), data...), mk()) })
			c11NoPanic(t, fmt.Sprintf("form unmarshal of %q into target %d", g, ti), func() { _ = fc.Unmarshal(append([]byte(nil), data...), mk()) })
			cases += 2
		}
	}
	t.Logf("BOUNDED C11 codecs: bound %d, %d cases, all round trips equal, no panic", max, cases)
}
