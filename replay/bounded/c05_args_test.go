package utils

// BOUNDED stand-in for C05 (metadata is an ordered multimap): every sequence of
// Add / Set / Del operations up to the bound over keys {a,b} and values {x,y,""}
// is run on the REAL utils.Args and compared with a reference ordered multimap;
// then the result is encoded (QueryString) and parsed back (ParseBytes).
// Bound (GOVC_BOUND): number of operations per sequence.

import (
	"fmt"
	"os"
	"strconv"
	"testing"
)

type c05KV struct{ k, v string }

func c05RefApply(ref []c05KV, op int, k, v string) []c05KV {
	switch op {
	case 0: // Add
		return append(ref, c05KV{k, v})
	case 1: // Set: first occurrence takes the value, else appended
		for i := range ref {
			if ref[i].k == k {
				ref[i].v = v
				return ref
			}
		}
		return append(ref, c05KV{k, v})
	default: // Del: every pair with the key goes
		var out []c05KV
		for _, e := range ref {
			if e.k != k {
				out = append(out, e)
			}
		}
		return out
	}
}

func TestBoundedC05Args(t *testing.T) {
	max := 4
	if v, err := strconv.Atoi(os.Getenv("GOVC_BOUND")); err == nil && v > 0 {
		max = v
	}
	keys := []string{"a", "b"}
	vals := []string{"x", "y", ""}
	type step struct {
		op   int
		k, v string
	}
	var steps []step
	for op := 0; op < 3; op++ {
		for _, k := range keys {
			if op == 2 {
				steps = append(steps, step{op, k, ""})
				continue
			}
			for _, v := range vals {
				steps = append(steps, step{op, k, v})
			}
		}
	}
	cases := 0
	var run func(seq []step)
	run = func(seq []step) {
		if len(seq) > 0 {
			var a Args
			var ref []c05KV
			for _, s := range seq {
				switch s.op {
				case 0:
					a.Add(s.k, s.v)
				case 1:
					a.Set(s.k, s.v)
				default:
					a.Del(s.k)
				}
				ref = c05RefApply(ref, s.op, s.k, s.v)
			}
			var got []c05KV
			a.VisitAll(func(k, v []byte) { got = append(got, c05KV{string(k), string(v)}) })
			if fmt.Sprint(got) != fmt.Sprint(ref) {
				t.Fatalf("REPLAYED (bounded): Args after %v holds %v, an ordered multimap holds %v", seq, got, ref)
			}
			var b Args
			b.ParseBytes(append([]byte(nil), a.QueryString()...))
			var back []c05KV
			b.VisitAll(func(k, v []byte) { back = append(back, c05KV{string(k), string(v)}) })
			if fmt.Sprint(back) != fmt.Sprint(ref) {
				t.Fatalf("REPLAYED (bounded): Args %v encoded as %q parses back as %v", ref, a.QueryString(), back)
			}
			cases++
		}
		if len(seq) == max {
			return
		}
		for _, s := range steps {
			run(append(seq[:len(seq):len(seq)], s))
		}
	}
	run(nil)
	t.Logf("BOUNDED C05 args: bound %d, %d operation sequences, Args == ordered multimap, encode/parse round trip", max, cases)
}
