package thriftproto_test

// BOUNDED stand-in for C05 (the byte layouts are produced by fmt/strconv/gjson/
// protobuf/thrift library code outside the VC generator's reach): the REAL
// Pack/Unpack of every framed wire protocol is run on an enumerated message
// domain over an in-memory connection that delivers its bytes in chunks.
//   round trip  : seq, type, service method, status, metadata (ordered multimap),
//                 body codec, body and transfer-filter list come back unchanged
//   frame sync  : several frames back to back, chunked reads of 1, 2, 7 and all bytes
//   size        : the size reported for a message does not depend on earlier traffic
// Bound (GOVC_BOUND): maximal length of the generated strings.

import (
	"bytes"
	"fmt"
	"io"
	"net"
	"os"
	"strconv"
	"strings"
	"testing"
	"time"

	erpc "github.com/henrylee2cn/erpc/v6"
	"github.com/henrylee2cn/erpc/v6/proto/httproto"
	"github.com/henrylee2cn/erpc/v6/proto/jsonproto"
	"github.com/henrylee2cn/erpc/v6/proto/pbproto"
	"github.com/henrylee2cn/erpc/v6/proto/rawproto"
	"github.com/henrylee2cn/erpc/v6/proto/thriftproto"
	"github.com/henrylee2cn/erpc/v6/socket"
	"github.com/henrylee2cn/erpc/v6/xfer/gzip"
)

type c05Conn struct {
	buf   bytes.Buffer
	chunk int
}

func (c *c05Conn) Read(p []byte) (int, error) {
	if c.buf.Len() == 0 {
		return 0, io.EOF
	}
	n := len(p)
	if c.chunk > 0 && n > c.chunk {
		n = c.chunk
	}
	return c.buf.Read(p[:n])
}
func (c *c05Conn) Write(p []byte) (int, error)        { return c.buf.Write(p) }
func (c *c05Conn) Close() error                       { return nil }
func (c *c05Conn) LocalAddr() net.Addr                { return nil }
func (c *c05Conn) RemoteAddr() net.Addr               { return nil }
func (c *c05Conn) SetDeadline(t time.Time) error      { return nil }
func (c *c05Conn) SetReadDeadline(t time.Time) error  { return nil }
func (c *c05Conn) SetWriteDeadline(t time.Time) error { return nil }

func c05Strings(alpha []string, max int) []string {
	out := []string{""}
	prev := []string{""}
	for l := 1; l <= max; l++ {
		var next []string
		for _, p := range prev {
			for _, a := range alpha {
				next = append(next, p+a)
			}
		}
		out = append(out, next...)
		prev = next
	}
	return out
}

type c05Msg struct {
	seq    int32
	mtype  byte
	method string
	code   int32
	msg    string
	meta   [][2]string
	body   string
	pipe   []byte
}

func c05Build(m c05Msg) socket.Message {
	out := socket.NewMessage()
	out.SetSeq(m.seq)
	out.SetMtype(m.mtype)
	out.SetServiceMethod(m.method)
	if m.code != 0 {
		out.SetStatus(erpc.NewStatus(m.code, m.msg, ""))
	}
	for _, kv := range m.meta {
		out.Meta().Add(kv[0], kv[1])
	}
	b := []byte(m.body)
	out.SetBody(&b)
	out.SetBodyCodec('s')
	if len(m.pipe) > 0 {
		out.XferPipe().Append(m.pipe...)
	}
	return out
}

func c05Check(t *testing.T, name string, want c05Msg, got socket.Message, body []byte) {
	fail := func(what string, a, b interface{}) {
		t.Fatalf("REPLAYED (bounded): %s: %s differs after pack/unpack: sent %q, received %q (message %+v)", name, what, fmt.Sprint(a), fmt.Sprint(b), want)
	}
	if got.Seq() != want.seq {
		fail("sequence number", want.seq, got.Seq())
	}
	if got.Mtype() != want.mtype {
		fail("type", want.mtype, got.Mtype())
	}
	if got.ServiceMethod() != want.method {
		fail("service method", want.method, got.ServiceMethod())
	}
	if got.Status().Code() != want.code || (want.code != 0 && got.Status().Msg() != want.msg) {
		fail("status", fmt.Sprint(want.code, want.msg), fmt.Sprint(got.Status().Code(), got.Status().Msg()))
	}
	var meta [][2]string
	got.Meta().VisitAll(func(k, v []byte) { meta = append(meta, [2]string{string(k), string(v)}) })
	if fmt.Sprint(meta) != fmt.Sprint(want.meta) && !(len(meta) == 0 && len(want.meta) == 0) {
		fail("metadata", want.meta, meta)
	}
	if got.BodyCodec() != 's' {
		fail("body codec", byte('s'), got.BodyCodec())
	}
	if string(body) != want.body {
		fail("body", want.body, string(body))
	}
	if string(got.XferPipe().IDs()) != string(want.pipe) {
		fail("transfer filter list", want.pipe, got.XferPipe().IDs())
	}
}

func c05Domain() (int, []c05Msg) {
	max := 2
	if v, err := strconv.Atoi(os.Getenv("GOVC_BOUND")); err == nil && v > 0 {
		max = v
	}
	texts := c05Strings([]string{"a", "\"", "\\", "&", "=", "%", "ü", "\n", "\x00"}, max)
	var msgs []c05Msg
	for i, s := range texts {
		// service method and status text: printable text (control characters are
		// outside the documented field set); body and metadata: arbitrary bytes
		printable := strings.Map(func(r rune) rune {
			if r < 0x20 {
				return -1
			}
			return r
		}, s)
		m := c05Msg{seq: int32(i*7919 - 40000), mtype: byte(1 + i%3), method: "/m/" + printable, body: s + s}
		if i%3 == 0 {
			m.code, m.msg = int32(400+i%100), "bad "+printable
		}
		if i%2 == 0 {
			m.meta = append(m.meta, [2]string{"k" + s, s}, [2]string{"dup", s}, [2]string{"dup", "second"})
		}
		if i%5 == 0 {
			m.pipe = []byte{'z'}
		}
		if i%7 == 0 {
			m.pipe = []byte{'z', 'z'} // a filter list longer than one read chunk
		}
		msgs = append(msgs, m)
	}
	return max, msgs
}

var c05Reg = func() bool { gzip.Reg('z', "gzip-c05", 5); return true }()

// round trip and frame sync of one protocol (sizes are checked separately)
func c05RoundTrip(t *testing.T, name string, pf erpc.ProtoFunc) {
	max, msgs := c05Domain()
	cases := 0
	for _, chunk := range []int{0, 1, 2, 7} {
		conn := &c05Conn{chunk: chunk}
		p := pf(conn)
		for _, m := range msgs {
			if err := p.Pack(c05Build(m)); err != nil {
				t.Fatalf("%s: pack %+v: %v", name, m, err)
			}
		}
		for i, m := range msgs {
			var body []byte
			in := socket.NewMessage(socket.WithNewBody(func(socket.Header) interface{} { return &body }))
			if err := p.Unpack(in); err != nil {
				t.Fatalf("REPLAYED (bounded): %s (chunk %d): frame %d of %d back-to-back frames does not decode: %v (message %+v)", name, chunk, i+1, len(msgs), err, m)
			}
			c05Check(t, fmt.Sprintf("%s (chunk %d, frame %d)", name, chunk, i+1), m, in, body)
			cases++
		}
	}
	t.Logf("BOUNDED C05 %s round trip: bound %d, %d messages x 4 chunk sizes = %d frames, all fields equal, no loss of frame sync", name, max, len(msgs), cases)
}

// the size reported for a message depends on that message alone
func c05Sizes(t *testing.T, name string, pf erpc.ProtoFunc) {
	max, msgs := c05Domain()
	conn := &c05Conn{}
	p := pf(conn)
	var sizes []uint32
	for _, m := range msgs {
		out := c05Build(m)
		if err := p.Pack(out); err != nil {
			t.Fatalf("%s: pack: %v", name, err)
		}
		sizes = append(sizes, out.Size())
	}
	for i := range msgs {
		var body []byte
		in := socket.NewMessage(socket.WithNewBody(func(socket.Header) interface{} { return &body }))
		if err := p.Unpack(in); err != nil {
			t.Fatalf("%s: unpack: %v", name, err)
		}
		if in.Size() != sizes[i] {
			t.Fatalf("REPLAYED (bounded): %s: frame %d was packed with size %d but unpacked with size %d: the size reported on receipt depends on other traffic (read-ahead / counters not restarted)", name, i+1, sizes[i], in.Size())
		}
	}
	c1, c2 := &c05Conn{}, &c05Conn{}
	p1, p2 := pf(c1), pf(c2)
	a := c05Build(msgs[len(msgs)-1])
	p1.Pack(a)
	for _, m := range msgs[:8] {
		p2.Pack(c05Build(m))
	}
	b := c05Build(msgs[len(msgs)-1])
	p2.Pack(b)
	if a.Size() != b.Size() {
		t.Fatalf("REPLAYED (bounded): %s: the same message is reported with size %d when packed first and %d after eight other messages", name, a.Size(), b.Size())
	}
	t.Logf("BOUNDED C05 %s sizes: bound %d, %d frames, packed size == unpacked size, independent of earlier traffic", name, max, len(msgs))
}

func TestBoundedC05RoundTripRaw(t *testing.T)      { c05RoundTrip(t, "raw", rawproto.NewRawProtoFunc()) }
func TestBoundedC05RoundTripJSON(t *testing.T)     { c05RoundTrip(t, "json", jsonproto.NewJSONProtoFunc()) }
func TestBoundedC05RoundTripProtobuf(t *testing.T) { c05RoundTrip(t, "protobuf", pbproto.NewPbProtoFunc()) }
func TestBoundedC05RoundTripThrift(t *testing.T) {
	c05RoundTrip(t, "thrift-binary", thriftproto.NewBinaryProtoFunc())
}
func TestBoundedC05SizesRaw(t *testing.T)      { c05Sizes(t, "raw", rawproto.NewRawProtoFunc()) }
func TestBoundedC05SizesJSON(t *testing.T)     { c05Sizes(t, "json", jsonproto.NewJSONProtoFunc()) }
func TestBoundedC05SizesProtobuf(t *testing.T) { c05Sizes(t, "protobuf", pbproto.NewPbProtoFunc()) }
func TestBoundedC05SizesThrift(t *testing.T) {
	c05Sizes(t, "thrift-binary", thriftproto.NewBinaryProtoFunc())
}

// HTTP protocol (maps messages onto HTTP requests/responses: the compared field
// set is what it documents - type, sequence number, status, body, gzip filter):
// back-to-back replies and calls, chunked reads
func TestBoundedC05RoundTripHTTP(t *testing.T) {
	max, _ := c05Domain()
	bodies := c05Strings([]string{"a", "\"", "\\", "{", "ü", "\n"}, max)
	cases := 0
	for _, chunk := range []int{0, 1, 2, 7} {
		conn := &c05Conn{chunk: chunk}
		p := httproto.NewHTTProtoFunc()(conn)
		type want struct {
			mtype byte
			seq   int32
			code  int32
			body  string
		}
		var wants []want
		for i, b := range bodies {
			out := socket.NewMessage()
			w := want{mtype: erpc.TypeReply, seq: int32(i + 1), body: b}
			if i%2 == 0 {
				w.mtype = erpc.TypeCall
			}
			out.SetMtype(w.mtype)
			out.SetSeq(w.seq)
			out.SetServiceMethod("/m/x")
			bb := []byte(b)
			out.SetBody(&bb)
			out.SetBodyCodec('s')
			if w.mtype == erpc.TypeReply && i%3 == 0 {
				w.code = 400 + int32(i%50)
				w.body = ""
				out.SetStatus(erpc.NewStatus(w.code, "bad", "cause"))
			}
			if i%4 == 0 || i%6 == 3 {
				// every fourth frame, and every second error reply, goes through the gzip filter
				out.XferPipe().Append('z')
			}
			if err := p.Pack(out); err != nil {
				t.Fatalf("http: pack: %v", err)
			}
			wants = append(wants, w)
		}
		for i, w := range wants {
			var body []byte
			in := socket.NewMessage(socket.WithNewBody(func(socket.Header) interface{} { return &body }))
			if err := p.Unpack(in); err != nil {
				t.Fatalf("REPLAYED (bounded): http (chunk %d): frame %d of %d back-to-back frames does not decode: %v (want %+v)", chunk, i+1, len(wants), err, w)
			}
			if in.Mtype() != w.mtype || in.Seq() != w.seq || in.Status().Code() != w.code || (w.code == 0 && string(body) != w.body) {
				t.Fatalf("REPLAYED (bounded): http (chunk %d): frame %d differs: sent %+v, received type %d seq %d status %d body %q", chunk, i+1, w, in.Mtype(), in.Seq(), in.Status().Code(), body)
			}
			cases++
		}
	}
	t.Logf("BOUNDED C05 http round trip: bound %d, %d frames, type/seq/status/body equal, no loss of frame sync", max, cases)
}
