package xfer_test

// BOUNDED stand-in for C12 on what contracts cannot reach: compress/gzip is
// library code, so "gzip's OnUnpack inverts its OnPack" is an assumption of the
// deductive part (axiom filter-inverse). Here the REAL filters are run:
//   round trip : for every pipe over {gzip level 1, gzip level 5, md5} up to the
//                bound (repeats included) and a fixed family of payloads (empty,
//                1 byte, compressible, incompressible below/above the 64 KiB
//                compressor window), OnUnpack(OnPack(p)) == p, with the packed bytes
//                copied off as the wire would
//   integrity  : for every such pipe that contains md5, flipping any one of a
//                sample of bytes of the packed payload never makes OnUnpack return a
//                different payload without an error; where md5 is the outer-most
//                filter (the wire is content+checksum) every flip is an error.
//                (With gzip outside md5 a flipped gzip header byte - mtime, OS - is
//                container metadata: same payload, no error, not a violation.)
// Bound (GOVC_BOUND): maximal pipe length.

import (
	"bytes"
	"os"
	"strconv"
	"strings"
	"testing"

	"github.com/henrylee2cn/erpc/v6/xfer"
	"github.com/henrylee2cn/erpc/v6/xfer/gzip"
	"github.com/henrylee2cn/erpc/v6/xfer/md5"
)

func c12Payloads() map[string][]byte {
	lcg := func(n int, seed uint32) []byte {
		b := make([]byte, n)
		x := seed
		for i := range b {
			x = x*1664525 + 1013904223
			b[i] = byte(x >> 24)
		}
		return b
	}
	return map[string][]byte{
		"empty":        {},
		"one":          {0x7f},
		"text":         []byte(strings.Repeat("teleport ", 300)),
		"random-40k":   lcg(40<<10, 1),
		"random-200k":  lcg(200<<10, 2),
		"zeros-100k":   make([]byte, 100<<10),
		"random-66000": lcg(66000, 3),
	}
}

func TestBoundedC12Pipes(t *testing.T) {
	bound := 3
	if v, err := strconv.Atoi(os.Getenv("GOVC_BOUND")); err == nil && v > 0 {
		bound = v
	}
	gzip.Reg('s', "gzip-1", 1)
	gzip.Reg('g', "gzip-5", 5)
	md5.Reg('m', "md5")
	ids := []byte{'s', 'g', 'm'}
	pipes := [][]byte{{}}
	prev := [][]byte{{}}
	for l := 1; l <= bound; l++ {
		var next [][]byte
		for _, p := range prev {
			for _, id := range ids {
				next = append(next, append(append([]byte(nil), p...), id))
			}
		}
		pipes = append(pipes, next...)
		prev = next
	}
	payloads := c12Payloads()
	checked, flips := 0, 0
	for _, ids := range pipes {
		for name, payload := range payloads {
			pipe := xfer.NewXferPipe()
			if err := pipe.Append(ids...); err != nil {
				t.Fatalf("pipe %q: Append: %v", ids, err)
			}
			packed, err := pipe.OnPack(append([]byte(nil), payload...))
			if err != nil {
				t.Fatalf("pipe %q payload %s: OnPack: %v", ids, name, err)
			}
			wire := append([]byte(nil), packed...)
			got, err := pipe.OnUnpack(append([]byte(nil), wire...))
			checked++
			if err != nil {
				t.Errorf("pipe %q payload %s: OnUnpack(OnPack(p)) failed: %v", ids, name, err)
				continue
			}
			if !bytes.Equal(got, payload) {
				t.Errorf("pipe %q payload %s: OnUnpack(OnPack(p)) != p (%d bytes instead of %d)", ids, name, len(got), len(payload))
				continue
			}
			if !bytes.Contains(ids, []byte{'m'}) || len(wire) == 0 || len(payload) > 50<<10 {
				continue
			}
			// integrity: sampled single-byte changes of the packed payload are rejected
			step := len(wire)/16 + 1
			for i := 0; i < len(wire); i += step {
				bad := append([]byte(nil), wire...)
				bad[i] ^= 0x21
				flips++
				out, err := pipe.OnUnpack(bad)
				switch {
				case err == nil && !bytes.Equal(out, payload):
					t.Errorf("pipe %q payload %s: packed byte %d altered, OnUnpack accepted a different payload", ids, name, i)
				case err == nil && ids[0] == 'm':
					// md5 is the outer-most filter: the wire bytes are exactly content+checksum
					t.Errorf("pipe %q payload %s: packed byte %d altered (content or checksum), OnUnpack reported no error", ids, name, i)
				}
			}
		}
	}
	t.Logf("bounded C12: %d pipes x %d payloads = %d round trips, %d altered frames, bound %d", len(pipes), len(payloads), checked, flips, bound)
}
