package erpc

// BOUNDED stand-in for C10 "name mapping reproduces the documented table":
// HTTPServiceMethodMapper/RPCServiceMethodMapper go through goutil.SnakeString,
// strings.Replace, path.Join and strings.Trim, which are outside the VC
// generator's reach. Every identifier over {A,B,a,b,_,1} up to length maxLen
// (no leading/trailing underscore, no run of 3+ underscores) is mapped by the
// REAL functions and compared with an independent transcription of the README
// rules: "__" is a literal underscore, a single "_" separates path segments,
// each segment is snake-cased (RPC mapper: kept as is, separator '.').

import (
	"os"
	"strconv"
	"strings"
	"testing"

	"github.com/henrylee2cn/goutil"
)

func c10RefSegments(name string) []string {
	var segs []string
	cur := ""
	for i := 0; i < len(name); i++ {
		if name[i] == '_' {
			if i+1 < len(name) && name[i+1] == '_' {
				cur += "_"
				i++
				continue
			}
			segs = append(segs, cur)
			cur = ""
			continue
		}
		cur += string(name[i])
	}
	return append(segs, cur)
}

func c10RefHTTP(name string) string {
	segs := c10RefSegments(name)
	for i, s := range segs {
		s = goutil.SnakeString(s)
		for strings.Contains(s, "__") {
			s = strings.Replace(s, "__", "_", -1)
		}
		segs[i] = strings.TrimPrefix(s, "_")
	}
	return "/" + strings.Join(segs, "/")
}

func c10RefRPC(name string) string { return strings.Join(c10RefSegments(name), ".") }

func TestBoundedC10Mapper(t *testing.T) {
	maxLen := 6
	if v, err := strconv.Atoi(os.Getenv("GOVC_BOUND")); err == nil && v > 0 {
		maxLen = v
	}
	table := map[string][2]string{
		"AaBb": {"/aa_bb", "AaBb"}, "ABcXYz": {"/abc_xyz", "ABcXYz"}, "Aa__Bb": {"/aa_bb", "Aa_Bb"}, "aa__bb": {"/aa_bb", "aa_bb"},
		"ABC__XYZ": {"/abc_xyz", "ABC_XYZ"}, "Aa_Bb": {"/aa/bb", "Aa.Bb"}, "aa_bb": {"/aa/bb", "aa.bb"}, "ABC_XYZ": {"/abc/xyz", "ABC.XYZ"},
	}
	for in, want := range table {
		if got := HTTPServiceMethodMapper("", in); got != want[0] {
			t.Errorf("documented row: HTTPServiceMethodMapper(%q) = %q, want %q", in, got, want[0])
		}
		if got := RPCServiceMethodMapper("", in); got != want[1] {
			t.Errorf("documented row: RPCServiceMethodMapper(%q) = %q, want %q", in, got, want[1])
		}
	}
	alpha := []byte("ABab_1")
	n, bad := 0, 0
	var gen func(cur []byte)
	gen = func(cur []byte) {
		if len(cur) > 0 {
			s := string(cur)
			ok := s[0] != '_' && s[len(s)-1] != '_' && !strings.Contains(s, "___") && !(s[0] >= '0' && s[0] <= '9')
			if ok {
				n++
				if got, want := HTTPServiceMethodMapper("", s), c10RefHTTP(s); got != want {
					if bad < 10 {
						t.Errorf("HTTPServiceMethodMapper(%q) = %q, reference %q", s, got, want)
					}
					bad++
				}
				if got, want := RPCServiceMethodMapper("", s), c10RefRPC(s); got != want {
					if bad < 10 {
						t.Errorf("RPCServiceMethodMapper(%q) = %q, reference %q", s, got, want)
					}
					bad++
				}
				// deterministic
				if HTTPServiceMethodMapper("/p", s) != HTTPServiceMethodMapper("/p", s) {
					t.Errorf("not deterministic on %q", s)
				}
			}
		}
		if len(cur) == maxLen {
			return
		}
		for _, c := range alpha {
			gen(append(cur, c))
		}
	}
	gen(nil)
	t.Logf("BOUNDED identifiers=%d maxLen=%d mismatches=%d", n, maxLen, bad)
}
