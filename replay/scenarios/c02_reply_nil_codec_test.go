package erpc_test

// Replay for C02/erpc.(*session).startReadAndHandle/ensures[no-orphan-reply-lock]:
// a REPLY frame whose body cannot be decoded and whose body codec id is 0 makes
// the reader stop after bindReply has taken the call's lock: the lock is never
// released, the call never completes and the disconnect handling deadlocks.

import (
	"net"
	"testing"
	"time"

	erpc "github.com/henrylee2cn/erpc/v6"
	"github.com/henrylee2cn/erpc/v6/socket"
)

func TestReplayC02ReplyNilCodec(t *testing.T) {
	erpc.SetLoggerLevel("OFF")
	cli := erpc.NewPeer(erpc.PeerConfig{})
	c1, c2 := net.Pipe()
	go func() {
		s := socket.GetSocket(c1)
		in := socket.GetMessage(socket.WithNewBody(func(erpc.Header) interface{} { return new([]byte) }))
		if err := s.ReadMessage(in); err != nil {
			return
		}
		// a reply with a non-empty body but body codec 0 (raw bytes): the caller's
		// result is a struct, so the body cannot be decoded
		body := []byte("garbage")
		out := socket.NewMessage(socket.WithBody(&body))
		out.SetMtype(erpc.TypeReply)
		out.SetSeq(in.Seq())
		out.SetServiceMethod(in.ServiceMethod())
		s.WriteMessage(out)
		time.Sleep(5 * time.Second)
	}()
	sess, st := cli.ServeConn(c2)
	if !st.OK() {
		t.Fatalf("setup: %v", st)
	}
	var result struct{ A int }
	cmd := sess.AsyncCall("/x/y", "arg", &result, make(chan erpc.CallCmd, 1))
	select {
	case <-cmd.Done():
	case <-time.After(3 * time.Second):
		t.Fatalf("REPLAYED: a REPLY frame with body codec 0 and an undecodable body was read, the reader stopped, and the call never completed (its lock is still held by the reader)")
	}
}
