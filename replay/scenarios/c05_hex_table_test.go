package utils_test

// Replay for C05/utils.init$hex2intTable/ensures[covers-every-byte-value]:
// metadata received from a peer is percent-decoded through a table that has only
// 255 entries, so the byte 0xFF after a '%' indexes past its end.

import (
	"testing"

	"github.com/henrylee2cn/erpc/v6/utils"
)

func TestReplayC05HexTable(t *testing.T) {
	defer func() {
		if p := recover(); p != nil {
			t.Fatalf("REPLAYED: decoding the metadata bytes \"k=%%\\xff0\" panicked: %v", p)
		}
	}()
	var a utils.Args
	a.ParseBytes([]byte("k=%\xff0"))
	if got := string(a.Peek("k")); got != "%\xff0" {
		t.Fatalf("REPLAYED: undecodable escape changed: %q", got)
	}
}
