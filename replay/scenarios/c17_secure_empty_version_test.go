package secure_test

// Replay for C17/plugin/secure.(*decryptPlugin).PostReadCallBody/ensures[other-key-rejected]:
// a peer that does not know the key marks a call as secure and sends an empty
// cipher envelope: the receiving secure plugin must refuse it (the cipher version
// does not match its key) instead of invoking the handler.

import (
	"net"
	"sync/atomic"
	"testing"

	erpc "github.com/henrylee2cn/erpc/v6"
	"github.com/henrylee2cn/erpc/v6/plugin/secure"
)

type c17Vault struct{ erpc.CallCtx }

var c17Invoked int32

func (v *c17Vault) Open(arg *map[string]string) (string, *erpc.Status) {
	atomic.AddInt32(&c17Invoked, 1)
	return "the secret", nil
}

func TestReplayC17SecureEmptyVersion(t *testing.T) {
	erpc.SetLoggerLevel("OFF")
	srv := erpc.NewPeer(erpc.PeerConfig{}, secure.NewPlugin(100001, "cipherkey1234567"))
	srv.RouteCall(new(c17Vault))
	cli := erpc.NewPeer(erpc.PeerConfig{}) // no secure plugin: does not know the key
	c1, c2 := net.Pipe()
	go srv.ServeConn(c1)
	sess, st := cli.ServeConn(c2)
	if !st.OK() {
		t.Fatalf("setup: %v", st)
	}
	var result map[string]interface{}
	stat := sess.Call("/c17_vault/open", map[string]string{}, &result, erpc.WithSetMeta("X-Secure", "true")).Status()
	if atomic.LoadInt32(&c17Invoked) != 0 {
		t.Fatalf("REPLAYED: a call marked secure with an empty cipher envelope (sender does not know the key) was accepted: the handler ran %d time(s), caller status %v", c17Invoked, stat)
	}
	if stat.OK() {
		t.Fatalf("REPLAYED: caller got OK for an envelope without a matching cipher version")
	}
}
