package jsonSubProto_test

// Replay for C04/mixer/websocket/jsonSubProto.(*jsonSubProto).Unpack/ensures[status-field-decoded]:
// a REPLY carrying an error status (404 unknown route) is packed by the
// websocket JSON sub-protocol and unpacked by the peer: the status must survive.

import (
	"bytes"
	"net"
	"testing"
	"time"

	erpc "github.com/henrylee2cn/erpc/v6"
	"github.com/henrylee2cn/erpc/v6/mixer/websocket/jsonSubProto"
	"github.com/henrylee2cn/erpc/v6/socket"
)

type rwcS struct{ *bytes.Buffer }

func (rwcS) Close() error                       { return nil }
func (rwcS) LocalAddr() net.Addr                { return nil }
func (rwcS) RemoteAddr() net.Addr               { return nil }
func (rwcS) SetDeadline(t time.Time) error      { return nil }
func (rwcS) SetReadDeadline(t time.Time) error  { return nil }
func (rwcS) SetWriteDeadline(t time.Time) error { return nil }

func TestReplayC04WsJSONStatus(t *testing.T) {
	buf := rwcS{new(bytes.Buffer)}
	p := jsonSubProto.NewJSONSubProtoFunc()(buf)
	out := socket.NewMessage()
	out.SetMtype(erpc.TypeReply)
	out.SetSeq(7)
	out.SetServiceMethod("/no/such/route")
	out.SetStatus(erpc.NewStatus(erpc.CodeNotFound, "Not Found", "no such route"))
	if err := p.Pack(out); err != nil {
		t.Fatalf("setup: pack: %v", err)
	}
	in := socket.NewMessage()
	in.SetNewBody(func(erpc.Header) interface{} { return new([]byte) })
	if err := p.Unpack(in); err != nil {
		t.Fatalf("setup: unpack: %v", err)
	}
	if in.Status().OK() {
		t.Fatalf("REPLAYED: a reply with status 404 %q sent through the websocket JSON sub-protocol arrives with status OK (frame: %s)", "Not Found", "status field missing")
	}
	if in.Status().Code() != erpc.CodeNotFound {
		t.Fatalf("REPLAYED: status code %d arrived instead of 404", in.Status().Code())
	}
}
