package jsonSubProto_test

// Replay for C12/mixer/websocket/jsonSubProto.(*jsonSubProto).Unpack/ensures[refusal-propagated]:
// a frame that names an unregistered transfer filter must be refused.

import (
	"bytes"
	"net"
	"testing"
	"time"

	erpc "github.com/henrylee2cn/erpc/v6"
	"github.com/henrylee2cn/erpc/v6/socket"
	"github.com/henrylee2cn/erpc/v6/mixer/websocket/jsonSubProto"
)

type rwc struct{ *bytes.Buffer }

func (rwc) Close() error                       { return nil }
func (rwc) LocalAddr() net.Addr                { return nil }
func (rwc) RemoteAddr() net.Addr               { return nil }
func (rwc) SetDeadline(t time.Time) error      { return nil }
func (rwc) SetReadDeadline(t time.Time) error  { return nil }
func (rwc) SetWriteDeadline(t time.Time) error { return nil }

func TestReplayC12WsJSONUnregisteredFilter(t *testing.T) {
	frame := `{"seq":1,"mtype":1,"serviceMethod":"/a/b","meta":"","bodyCodec":106,"body":"payload","xferPipe":[77]}`
	p := jsonSubProto.NewJSONSubProtoFunc()(rwc{bytes.NewBufferString(frame)})
	m := socket.NewMessage()
	m.SetNewBody(func(erpc.Header) interface{} { return new([]byte) })
	err := p.Unpack(m)
	if err == nil {
		t.Fatalf("REPLAYED: frame naming unregistered transfer filter 77 was accepted: err=nil, pipe length %d, body %q", m.XferPipe().Len(), *(m.Body().(*[]byte)))
	}
}
