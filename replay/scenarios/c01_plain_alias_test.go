package socket_test

// Replay for C01 (a decoded body must not alias the receive buffer): two frames
// are packed onto one connection and unpacked one after the other by the real
// raw protocol; the first message's body is a named string decoded by the plain
// codec. After the second frame has been read, the first body must still be what
// its sender supplied.

import (
	"bytes"
	"net"
	"testing"
	"time"

	"github.com/henrylee2cn/erpc/v6/socket"
)

type c01Text string

type c01Pipe struct{ *bytes.Buffer }

func (c01Pipe) Close() error                       { return nil }
func (c01Pipe) LocalAddr() net.Addr                { return nil }
func (c01Pipe) RemoteAddr() net.Addr               { return nil }
func (c01Pipe) SetDeadline(t time.Time) error      { return nil }
func (c01Pipe) SetReadDeadline(t time.Time) error  { return nil }
func (c01Pipe) SetWriteDeadline(t time.Time) error { return nil }

func TestReplayC01PlainAlias(t *testing.T) {
	conn := c01Pipe{new(bytes.Buffer)}
	s := socket.NewSocket(conn)
	for _, body := range []string{"AAAAAAAAAAAAAAAA", "BBBBBBBBBBBBBBBB"} {
		m := socket.NewMessage(socket.WithBody(c01Text(body)), socket.WithBodyCodec('s'))
		m.SetMtype(1)
		m.SetServiceMethod("/a/b")
		if err := s.WriteMessage(m); err != nil {
			t.Fatalf("setup: %v", err)
		}
	}
	var first, second c01Text
	m1 := socket.GetMessage(socket.WithNewBody(func(socket.Header) interface{} { return &first }))
	if err := s.ReadMessage(m1); err != nil {
		t.Fatalf("setup: read 1: %v", err)
	}
	if first != "AAAAAAAAAAAAAAAA" {
		t.Fatalf("setup: first body %q", first)
	}
	m2 := socket.GetMessage(socket.WithNewBody(func(socket.Header) interface{} { return &second }))
	if err := s.ReadMessage(m2); err != nil {
		t.Fatalf("setup: read 2: %v", err)
	}
	if first != "AAAAAAAAAAAAAAAA" {
		t.Fatalf("REPLAYED: after the next frame was read, the first message's decoded body reads %q (its sender supplied \"AAAAAAAAAAAAAAAA\"): the plain codec's result aliases the recycled receive buffer", first)
	}
}
