package gzip_test

// Replay for C12/xfer/gzip.(*Gzip).OnUnpack/...Reader).Close/requires[decompressor-initialised]:
// a payload whose gzip header was altered in transit must be rejected with an
// error. The filter's pooled reader is fresh on first use, so its first Reset
// fails before a decompressor exists, and the unconditional Close dereferences nil.

import (
	"testing"

	"github.com/henrylee2cn/erpc/v6/xfer"
	"github.com/henrylee2cn/erpc/v6/xfer/gzip"
)

func TestReplayC12GzipCorruptHeader(t *testing.T) {
	gzip.Reg('z', "gzip-replay", 5)
	pipe := xfer.NewXferPipe()
	if err := pipe.Append('z'); err != nil {
		t.Fatal(err)
	}
	packed, err := pipe.OnPack([]byte("payload payload payload"))
	if err != nil {
		t.Fatal(err)
	}
	wire := append([]byte(nil), packed...)
	wire[0] ^= 0x21 // gzip magic altered in transit
	defer func() {
		if p := recover(); p != nil {
			t.Fatalf("REPLAYED: unpacking a payload with an altered gzip header panicked instead of returning an error: %v", p)
		}
	}()
	// a second filter instance, as the receiving process has: its reader pool is fresh
	gzip.Reg('y', "gzip-replay-rx", 5)
	rx := xfer.NewXferPipe()
	rx.Append('y')
	if _, err := rx.OnUnpack(wire); err == nil {
		t.Fatalf("REPLAYED: altered payload accepted")
	}
}
