package proxy_test

// Replay for C15/plugin/proxy.(*proxy).push/.../requires[not-shared]:
// a proxied PUSH whose backend session is closed makes the proxy rewrite the
// status it got back from Session.Push. If that status is the framework's
// shared "connection closed" sentinel, every later connection-closed failure in
// the process reports 502 instead of 102.

import (
	"net"
	"testing"
	"time"

	erpc "github.com/henrylee2cn/erpc/v6"
	"github.com/henrylee2cn/erpc/v6/plugin/proxy"
)

func closedSessionPushCode(t *testing.T) (int32, string) {
	a := erpc.NewPeer(erpc.PeerConfig{})
	b := erpc.NewPeer(erpc.PeerConfig{})
	c1, c2 := net.Pipe()
	go b.ServeConn(c1)
	s, st := a.ServeConn(c2)
	if !st.OK() {
		t.Fatalf("setup: %v", st)
	}
	s.Close()
	r := s.Push("/x/y", "v")
	return r.Code(), r.Msg()
}

func TestReplayC15ProxyPush(t *testing.T) {
	erpc.SetLoggerLevel("OFF")
	before, _ := closedSessionPushCode(t)

	backendSrv := erpc.NewPeer(erpc.PeerConfig{})
	gwCli := erpc.NewPeer(erpc.PeerConfig{})
	c1, c2 := net.Pipe()
	go backendSrv.ServeConn(c1)
	bsess, st := gwCli.ServeConn(c2)
	if !st.OK() {
		t.Fatalf("setup: %v", st)
	}
	bsess.Close()

	gw := erpc.NewPeer(erpc.PeerConfig{}, proxy.NewPushPlugin(func(*proxy.Label) proxy.PushForwarder { return bsess }))
	cli := erpc.NewPeer(erpc.PeerConfig{})
	d1, d2 := net.Pipe()
	go gw.ServeConn(d1)
	csess, st := cli.ServeConn(d2)
	if !st.OK() {
		t.Fatalf("setup: %v", st)
	}
	if st := csess.Push("/not/served/here", "x"); !st.OK() {
		t.Fatalf("push to gateway: %v", st)
	}
	time.Sleep(500 * time.Millisecond)

	after, msg := closedSessionPushCode(t)
	if before != 102 {
		t.Fatalf("control: closed-session push reports %d, want 102", before)
	}
	if after != 102 {
		t.Fatalf("REPLAYED: after one proxied push with the backend down, a push on an unrelated closed session reports %d %q instead of 102 (shared sentinel was rewritten)", after, msg)
	}
}
