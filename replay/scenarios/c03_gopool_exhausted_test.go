package erpc_test

// Replay for C03/erpc.(*session).startReadAndHandle/loop0/invariant[every-accepted-frame-dispatched]:
// when the goroutine pool refuses the handling closure, the reader returns the
// context to its pool and goes on reading: the CALL is neither handled nor
// answered although the connection stays up.

import (
	"net"
	"sync"
	"testing"
	"time"

	erpc "github.com/henrylee2cn/erpc/v6"
)

type c03Slow struct{ erpc.CallCtx }

var c03Release = make(chan struct{})

func (h *c03Slow) Wait(arg *string) (string, *erpc.Status) {
	<-c03Release
	return "done:" + *arg, nil
}

func TestReplayC03GopoolExhausted(t *testing.T) {
	erpc.SetLoggerLevel("OFF")
	// a small pool: the two reader goroutines take two slots, two more for handlers
	erpc.SetGopool(4, time.Minute)
	defer erpc.SetGopool(1024*1024*100, time.Minute*10)

	srv := erpc.NewPeer(erpc.PeerConfig{})
	srv.RouteCall(new(c03Slow))
	cli := erpc.NewPeer(erpc.PeerConfig{})
	c1, c2 := net.Pipe()
	go srv.ServeConn(c1)
	sess, st := cli.ServeConn(c2)
	if !st.OK() {
		t.Fatalf("setup: %v", st)
	}
	const n = 6
	var wg sync.WaitGroup
	answered := make([]bool, n)
	for i := 0; i < n; i++ {
		wg.Add(1)
		go func(i int) {
			defer wg.Done()
			var reply string
			cmd := sess.AsyncCall("/c03_slow/wait", "x", &reply, make(chan erpc.CallCmd, 1))
			select {
			case <-cmd.Done():
				answered[i] = true
			case <-time.After(4 * time.Second):
			}
		}(i)
	}
	time.Sleep(1500 * time.Millisecond) // all six CALL frames have been read by now
	close(c03Release)
	wg.Wait()
	missing := 0
	for _, ok := range answered {
		if !ok {
			missing++
		}
	}
	if !sess.Health() {
		t.Skip("connection went down: not the scenario")
	}
	if missing > 0 {
		t.Fatalf("REPLAYED: %d of %d CALLs were never answered although the connection stayed up (goroutine pool refused their handling closures and the reader dropped them)", missing, n)
	}
}
