package erpc_test

// Replay for C04/erpc.(*handlerCtx).handleReply/ensures[decode-failure-reported]:
// the reply body cannot be decoded into the caller's result (the reader records
// that as the context's status), yet the caller observes OK.

import (
	"net"
	"testing"

	erpc "github.com/henrylee2cn/erpc/v6"
)

type c04Svc struct{ erpc.CallCtx }

func (h *c04Svc) Text(arg *string) (string, *erpc.Status) { return "not-a-number", nil }

func TestReplayC04UndecodableReply(t *testing.T) {
	erpc.SetLoggerLevel("OFF")
	srv := erpc.NewPeer(erpc.PeerConfig{})
	srv.RouteCall(new(c04Svc))
	cli := erpc.NewPeer(erpc.PeerConfig{})
	c1, c2 := net.Pipe()
	go srv.ServeConn(c1)
	sess, st := cli.ServeConn(c2)
	if !st.OK() {
		t.Fatalf("setup: %v", st)
	}
	var result int // the JSON string "not-a-number" cannot be decoded into an int
	stat := sess.Call("/c04_svc/text", "x", &result).Status()
	if stat.OK() {
		t.Fatalf("REPLAYED: the reply body could not be decoded into the caller's result (result=%d) but the caller observes OK", result)
	}
}
