package erpc

// Replay for C09/erpc.(*PluginContainer).cloneAndAppendMiddle/ensures[own]:
// a group's plugin list must not share spare backing-array capacity with the
// clones made from it. Three nested groups give a middle list with len 4, cap 6;
// a sibling registration then overwrites the group plugin of an already created
// sub-group, and routes registered in that sub-group afterwards run the wrong plugin.

import (
	"net"
	"strings"
	"sync"
	"testing"
	"time"
)

type c09Rec struct {
	mu  sync.Mutex
	evs []string
}

func (r *c09Rec) add(s string) { r.mu.Lock(); r.evs = append(r.evs, s); r.mu.Unlock() }

type c09Plugin struct {
	name string
	rec  *c09Rec
	veto bool
}

func (p *c09Plugin) Name() string { return p.name }
func (p *c09Plugin) PostReadCallBody(ctx ReadCtx) *Status {
	p.rec.add(p.name)
	if p.veto {
		return NewStatus(4321, "vetoed by "+p.name, "")
	}
	return nil
}

func C09Alpha(ctx CallCtx, arg *string) (string, *Status) { return "alpha:" + *arg, nil }
func C09Beta(ctx CallCtx, arg *string) (string, *Status)  { return "beta:" + *arg, nil }

func TestReplayC09CloneAlias(t *testing.T) {
	SetLoggerLevel("OFF")
	rec := &c09Rec{}
	mk := func(n string, veto bool) *c09Plugin { return &c09Plugin{name: n, rec: rec, veto: veto} }
	srv := NewPeer(PeerConfig{})
	defer srv.Close()
	g1 := srv.SubRoute("/a", mk("p1", false), mk("p2", false), mk("p3", false))
	g2 := g1.SubRoute("/b", mk("p4", false))
	g3 := g2.SubRoute("/x", mk("pS", false))
	g2.RouteCallFunc(C09Alpha, mk("pA", true)) // sibling registration, handler-level vetoing plugin
	pathB := g3.RouteCallFunc(C09Beta)          // route in the sub-group created before

	cli := NewPeer(PeerConfig{})
	defer cli.Close()
	c1, c2 := net.Pipe()
	go srv.ServeConn(c1)
	sess, stat := cli.ServeConn(c2)
	if !stat.OK() {
		t.Fatal(stat)
	}
	done := make(chan *Status, 1)
	var res string
	go func() {
		arg := "x"
		done <- sess.Call(pathB, &arg, &res, WithBodyCodec('j')).Status()
	}()
	var st *Status
	select {
	case st = <-done:
	case <-time.After(10 * time.Second):
		t.Fatal("call timed out")
	}
	rec.mu.Lock()
	got := strings.Join(rec.evs, ",")
	rec.mu.Unlock()
	if got != "p1,p2,p3,p4,pS" || !st.OK() {
		t.Fatalf("REPLAYED: route %s is registered in group chain p1,p2,p3,p4,pS but its PostReadCallBody hooks ran as [%s], status %v (plugin pA belongs to a sibling route only)", pathB, got, st)
	}
}
