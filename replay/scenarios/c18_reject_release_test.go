package overloader_test

// Replay for C18/plugin/overloader.(*Overloader).PostDisconnect: the framework
// runs the disconnect hook also for connections an accept hook rejected; if the
// overloader releases a slot for them, more than MaxConn sessions are admitted.

import (
	"fmt"
	"net"
	"sync/atomic"
	"testing"
	"time"

	erpc "github.com/henrylee2cn/erpc/v6"
	"github.com/henrylee2cn/erpc/v6/plugin/overloader"
)

type C18Arg struct{ A int }
type c18Ctrl struct{ erpc.CallCtx }

func (c *c18Ctrl) Ping(a *C18Arg) (int, *erpc.Status) { return a.A, nil }

type idPlugin struct{ n int64 }

func (p *idPlugin) Name() string { return "c18-id" }
func (p *idPlugin) PostAccept(s erpc.PreSession) *erpc.Status {
	s.SetID(fmt.Sprintf("conn-%d", atomic.AddInt64(&p.n, 1)))
	return nil
}

func TestReplayC18RejectedRelease(t *testing.T) {
	erpc.SetLoggerLevel("OFF")
	const limit = 2
	srv := erpc.NewPeer(erpc.PeerConfig{}, &idPlugin{}, overloader.New(overloader.LimitConfig{MaxConn: limit}))
	srv.RouteCall(new(c18Ctrl))
	var sessions []erpc.Session
	healthy := func() int {
		n := 0
		for _, s := range sessions {
			var r int
			if s.Call("/c18_ctrl/ping", &C18Arg{A: 7}, &r, erpc.WithBodyCodec('j')).Status().OK() && r == 7 {
				n++
			}
		}
		return n
	}
	for i := 0; i < 10; i++ {
		cli := erpc.NewPeer(erpc.PeerConfig{})
		c1, c2 := net.Pipe()
		go srv.ServeConn(c1)
		s, st := cli.ServeConn(c2)
		if st.OK() {
			sessions = append(sessions, s)
		}
		time.Sleep(30 * time.Millisecond)
		if n := healthy(); n > limit {
			t.Fatalf("REPLAYED: MaxConn=%d but %d sessions are admitted and answer calls concurrently after %d connection attempts", limit, n, i+1)
		}
	}
}
