package erpc

// Replay for C09/erpc.(*PluginContainer).cloneAndAppendMiddle$1/ensures[refreshes-subtree]:
// a global plugin appended after routes were registered must fire for every
// route, also for routes of nested groups.

import (
	"net"
	"strings"
	"sync"
	"testing"
	"time"
)

type c09gRec struct {
	mu  sync.Mutex
	evs []string
}

type c09gPlugin struct {
	name string
	rec  *c09gRec
}

func (p *c09gPlugin) Name() string { return p.name }
func (p *c09gPlugin) PostReadCallBody(ctx ReadCtx) *Status {
	p.rec.mu.Lock()
	p.rec.evs = append(p.rec.evs, p.name+"@"+ctx.ServiceMethod())
	p.rec.mu.Unlock()
	return nil
}

func C09gTop(ctx CallCtx, arg *string) (string, *Status)    { return "top:" + *arg, nil }
func C09gNested(ctx CallCtx, arg *string) (string, *Status) { return "nested:" + *arg, nil }

func TestReplayC09RefreshTree(t *testing.T) {
	SetLoggerLevel("OFF")
	rec := &c09gRec{}
	srv := NewPeer(PeerConfig{})
	defer srv.Close()
	pathTop := srv.RouteCallFunc(C09gTop)
	g := srv.SubRoute("/g")
	pathNested := g.RouteCallFunc(C09gNested)
	// a global plugin registered after the routes
	srv.PluginContainer().AppendRight(&c09gPlugin{name: "late-global", rec: rec})

	cli := NewPeer(PeerConfig{})
	defer cli.Close()
	c1, c2 := net.Pipe()
	go srv.ServeConn(c1)
	sess, stat := cli.ServeConn(c2)
	if !stat.OK() {
		t.Fatal(stat)
	}
	for _, p := range []string{pathTop, pathNested} {
		done := make(chan *Status, 1)
		go func(p string) {
			arg, res := "x", ""
			done <- sess.Call(p, &arg, &res, WithBodyCodec('j')).Status()
		}(p)
		select {
		case st := <-done:
			if !st.OK() {
				t.Fatalf("call %s: %v", p, st)
			}
		case <-time.After(10 * time.Second):
			t.Fatal("call timed out")
		}
	}
	rec.mu.Lock()
	got := strings.Join(rec.evs, ",")
	rec.mu.Unlock()
	want := "late-global@" + pathTop + ",late-global@" + pathNested
	if got != want {
		t.Fatalf("REPLAYED: global plugin appended after route registration fired as [%s], want [%s] (routes of nested groups are not refreshed)", got, want)
	}
}
