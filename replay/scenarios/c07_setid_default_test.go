package erpc_test

// Replay for C07/erpc.(*session).SetID/ensures[indexed-under-current-id]:
// a live session that still carries its default id (the remote address) is given
// the empty id, i.e. "use the default". The id does not change, but SetID compares
// the old id with the ARGUMENT, re-inserts the session under its (unchanged)
// current id and then deletes the "old" entry - which is that same entry.

import (
	"net"
	"testing"
	"time"

	erpc "github.com/henrylee2cn/erpc/v6"
)

func TestReplayC07SetIDDefault(t *testing.T) {
	erpc.SetLoggerLevel("OFF")
	srv := erpc.NewPeer(erpc.PeerConfig{})
	cli := erpc.NewPeer(erpc.PeerConfig{})
	ln, err := net.Listen("tcp", "127.0.0.1:0")
	if err != nil {
		t.Fatal(err)
	}
	defer ln.Close()
	accepted := make(chan erpc.Session, 1)
	go func() {
		c, err := ln.Accept()
		if err != nil {
			return
		}
		s, st := srv.ServeConn(c)
		if st.OK() {
			accepted <- s
		}
	}()
	c2, err := net.Dial("tcp", ln.Addr().String())
	if err != nil {
		t.Fatal(err)
	}
	if _, st := cli.ServeConn(c2); !st.OK() {
		t.Fatalf("setup: %v", st)
	}
	var sess erpc.Session
	select {
	case sess = <-accepted:
	case <-time.After(3 * time.Second):
		t.Fatal("setup: no session accepted")
	}
	id := sess.ID()
	if _, ok := srv.GetSession(id); !ok || srv.CountSession() != 1 {
		t.Fatalf("setup: session not indexed under its default id %q", id)
	}
	sess.SetID("") // keep the default id
	if got := sess.ID(); got != id {
		t.Fatalf("setup: id changed from %q to %q", id, got)
	}
	if !sess.Health() {
		t.Skip("session not healthy: not the scenario")
	}
	if _, ok := srv.GetSession(id); !ok {
		t.Fatalf("REPLAYED: live session with id %q is no longer in the peer's session index after SetID(\"\") (index size %d)", id, srv.CountSession())
	}
}
