package pbSubProto_test

// Replay for C12/mixer/websocket/pbSubProto.(*pbSubProto).Unpack/ensures[refusal-propagated].

import (
	"bytes"
	"net"
	"testing"
	"time"

	erpc "github.com/henrylee2cn/erpc/v6"
	"github.com/henrylee2cn/erpc/v6/socket"
	"github.com/henrylee2cn/erpc/v6/codec"
	"github.com/henrylee2cn/erpc/v6/mixer/websocket/pbSubProto"
	"github.com/henrylee2cn/erpc/v6/mixer/websocket/pbSubProto/pb"
)

type rwc struct{ *bytes.Buffer }

func (rwc) Close() error                       { return nil }
func (rwc) LocalAddr() net.Addr                { return nil }
func (rwc) RemoteAddr() net.Addr               { return nil }
func (rwc) SetDeadline(t time.Time) error      { return nil }
func (rwc) SetReadDeadline(t time.Time) error  { return nil }
func (rwc) SetWriteDeadline(t time.Time) error { return nil }

func TestReplayC12WsPbUnregisteredFilter(t *testing.T) {
	b, err := codec.ProtoMarshal(&pb.Payload{Seq: 1, Mtype: 1, ServiceMethod: "/a/b", BodyCodec: 106, Body: []byte("payload"), XferPipe: []byte{77}})
	if err != nil {
		t.Fatal(err)
	}
	p := pbSubProto.NewPbSubProtoFunc()(rwc{bytes.NewBuffer(b)})
	m := socket.NewMessage()
	m.SetNewBody(func(erpc.Header) interface{} { return new([]byte) })
	if err := p.Unpack(m); err == nil {
		t.Fatalf("REPLAYED: frame naming unregistered transfer filter 77 was accepted: err=nil, pipe length %d, body %q", m.XferPipe().Len(), *(m.Body().(*[]byte)))
	}
}
