package erpc_test

// Replay for C07/erpc.(*session).closeLocked/ensures[index-only-own-entry]:
// a newer session takes over an id; the hub closes the older holder, whose close
// must not remove the index entry that now belongs to the newer session.

import (
	"net"
	"testing"
	"time"

	erpc "github.com/henrylee2cn/erpc/v6"
)

type c07IDs struct{ n int }

func (*c07IDs) Name() string { return "c07-ids" }
func (p *c07IDs) PostAccept(s erpc.PreSession) *erpc.Status {
	p.n++
	if p.n == 1 {
		s.SetID("tenant-42")
	} else {
		s.SetID("tenant-42-new-device")
	}
	return nil
}

func TestReplayC07HubTakeover(t *testing.T) {
	erpc.SetLoggerLevel("OFF")
	srv := erpc.NewPeer(erpc.PeerConfig{}, &c07IDs{})
	dial := func() erpc.Session {
		cli := erpc.NewPeer(erpc.PeerConfig{})
		c1, c2 := net.Pipe()
		go srv.ServeConn(c1)
		s, st := cli.ServeConn(c2)
		if !st.OK() {
			t.Fatalf("setup: %v", st)
		}
		return s
	}
	first := dial()
	time.Sleep(200 * time.Millisecond)
	second := dial()
	time.Sleep(500 * time.Millisecond)
	_ = first
	// the newer session takes over the id of the older one
	newer, ok := srv.GetSession("tenant-42-new-device")
	if !ok {
		t.Fatalf("setup: second session not indexed")
	}
	newer.SetID("tenant-42")
	time.Sleep(500 * time.Millisecond)
	if !second.Health() {
		t.Skip("second connection not healthy: not the scenario")
	}
	got, ok := srv.GetSession("tenant-42")
	if !ok {
		t.Fatalf("REPLAYED: the newer session took over id %q and is live, but the peer's session index has no entry for it (the older holder's close deleted the entry by id); index size %d", "tenant-42", srv.CountSession())
	}
	if !got.Health() {
		t.Fatalf("REPLAYED: the index entry for %q is a closed session", "tenant-42")
	}
}
