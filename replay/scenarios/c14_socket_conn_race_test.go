package socket_test

// Replay (race detector) for C14/.../guarded[socket.socket.Conn by mu]: the socket's
// connection field is replaced under the socket's mutex by Reset (what a client
// session does when it redials) but read without it by the promoted net.Conn
// methods the session uses while writing (SetWriteDeadline, SetReadDeadline).

import (
	"net"
	"sync"
	"testing"
	"time"

	"github.com/henrylee2cn/erpc/v6/socket"
)

func TestReplayC14SocketConnRace(t *testing.T) {
	a1, a2 := net.Pipe()
	b1, b2 := net.Pipe()
	defer a2.Close()
	defer b2.Close()
	s := socket.NewSocket(a1)
	var wg sync.WaitGroup
	wg.Add(2)
	go func() { // a writer setting its deadline, as session.write does
		defer wg.Done()
		for i := 0; i < 200; i++ {
			s.SetWriteDeadline(time.Time{})
		}
	}()
	go func() { // the redial path replacing the connection
		defer wg.Done()
		for i := 0; i < 200; i++ {
			if i%2 == 0 {
				s.Reset(b1)
			} else {
				s.Reset(a1)
			}
		}
	}()
	wg.Wait()
}
