package erpc_test

// Replay for C02/erpc.(*handlerCtx).bindReply/ensures[bound-call-is-pending]:
// the remote peer answers one CALL with two REPLY frames carrying the same
// sequence number. The second frame is bound to the call while the first is
// still being handled; the call is then completed a second time, which blocks
// forever on the completion channel, and closing the session never returns.

import (
	"net"
	"testing"
	"time"

	erpc "github.com/henrylee2cn/erpc/v6"
	"github.com/henrylee2cn/erpc/v6/socket"
)

type c02SlowPostRead struct{}

func (c02SlowPostRead) Name() string { return "c02-slow-post-read-reply" }
func (c02SlowPostRead) PostReadReplyBody(erpc.ReadCtx) *erpc.Status {
	time.Sleep(300 * time.Millisecond)
	return nil
}

func TestReplayC02DuplicateReply(t *testing.T) {
	erpc.SetLoggerLevel("OFF")
	cli := erpc.NewPeer(erpc.PeerConfig{}, c02SlowPostRead{})
	c1, c2 := net.Pipe()
	// a hand-written remote peer: answers the first CALL twice
	go func() {
		s := socket.GetSocket(c1)
		in := socket.GetMessage(socket.WithNewBody(func(erpc.Header) interface{} { return new([]byte) }))
		if err := s.ReadMessage(in); err != nil {
			return
		}
		for i := 0; i < 2; i++ {
			out := socket.NewMessage(socket.WithBody("ok"), socket.WithBodyCodec('j'))
			out.SetMtype(erpc.TypeReply)
			out.SetSeq(in.Seq())
			out.SetServiceMethod(in.ServiceMethod())
			if err := s.WriteMessage(out); err != nil {
				return
			}
		}
		// keep the connection open
		time.Sleep(5 * time.Second)
	}()
	sess, st := cli.ServeConn(c2)
	if !st.OK() {
		t.Fatalf("setup: %v", st)
	}
	var result string
	cmd := sess.Call("/x/y", "arg", &result)
	if !cmd.Status().OK() {
		t.Fatalf("setup: first reply not delivered: %v", cmd.Status())
	}
	time.Sleep(900 * time.Millisecond) // both reply frames have been processed by now
	closed := make(chan struct{})
	go func() { sess.Close(); close(closed) }()
	select {
	case <-closed:
	case <-time.After(3 * time.Second):
		t.Fatalf("REPLAYED: after a duplicate REPLY frame the second completion of the call blocks forever and Session.Close() does not return")
	}
}
