package httproto_test

// Replay for C06/proto/httproto.(*httproto).unpack: with the per-message read
// limit scaled down to 1024 bytes, a frame announcing Content-Length 1048576
// must be refused before a buffer of that size is requested, and a header line
// longer than the limit must not be buffered without bound.

import (
	"bytes"
	"net"
	"strings"
	"testing"
	"time"

	erpc "github.com/henrylee2cn/erpc/v6"
	"github.com/henrylee2cn/erpc/v6/proto/httproto"
	"github.com/henrylee2cn/erpc/v6/socket"
)

type countingConn struct {
	r        *bytes.Reader
	maxRead  int
	consumed int
}

func (c *countingConn) Read(p []byte) (int, error) {
	if len(p) > c.maxRead {
		c.maxRead = len(p)
	}
	n, err := c.r.Read(p)
	c.consumed += n
	return n, err
}
func (c *countingConn) Write(p []byte) (int, error)        { return len(p), nil }
func (c *countingConn) Close() error                       { return nil }
func (c *countingConn) LocalAddr() net.Addr                { return nil }
func (c *countingConn) RemoteAddr() net.Addr               { return nil }
func (c *countingConn) SetDeadline(t time.Time) error      { return nil }
func (c *countingConn) SetReadDeadline(t time.Time) error  { return nil }
func (c *countingConn) SetWriteDeadline(t time.Time) error { return nil }

func TestReplayC06HTTPContentLength(t *testing.T) {
	old := socket.MessageSizeLimit()
	socket.SetMessageSizeLimit(1024)
	defer socket.SetMessageSizeLimit(old)

	frame := "POST /a/b HTTP/1.1\r\nContent-Type: application/json\r\nContent-Length: 1048576\r\n\r\n" + strings.Repeat("x", 5000)
	c := &countingConn{r: bytes.NewReader([]byte(frame))}
	p := httproto.NewHTTProtoFunc()(c)
	m := socket.NewMessage()
	m.SetNewBody(func(erpc.Header) interface{} { return new([]byte) })
	err := p.Unpack(m)
	if c.maxRead > 2048 {
		t.Fatalf("REPLAYED: read limit 1024 but a single read buffer of %d bytes was requested for the announced body (err=%v, %d bytes consumed)", c.maxRead, err, c.consumed)
	}
	if err == nil {
		t.Fatalf("REPLAYED: oversize frame accepted")
	}

	// header line without end
	long := "POST /a/b HTTP/1.1\r\nX-Long: " + strings.Repeat("y", 200000)
	c2 := &countingConn{r: bytes.NewReader([]byte(long))}
	p2 := httproto.NewHTTProtoFunc()(c2)
	m2 := socket.NewMessage()
	_ = p2.Unpack(m2)
	if c2.consumed > 8192 {
		t.Fatalf("REPLAYED: read limit 1024 but %d bytes of one header line were consumed and buffered", c2.consumed)
	}
}
