package proxy_test

// Replay for C19/plugin/proxy.(*proxy).call/safety[nil-deref in utils.(*Args).VisitAll]:
// a proxied CALL whose backend connection is down must surface as 502 Bad
// Gateway; the proxy instead dereferences the reply metadata of a call that
// never got a reply (nil), panics, and the caller sees 500.

import (
	"net"
	"testing"

	erpc "github.com/henrylee2cn/erpc/v6"
	"github.com/henrylee2cn/erpc/v6/plugin/proxy"
)

func TestReplayC19ProxyBackendDown(t *testing.T) {
	erpc.SetLoggerLevel("OFF")
	backendSrv := erpc.NewPeer(erpc.PeerConfig{})
	gwCli := erpc.NewPeer(erpc.PeerConfig{})
	c1, c2 := net.Pipe()
	go backendSrv.ServeConn(c1)
	bsess, st := gwCli.ServeConn(c2)
	if !st.OK() {
		t.Fatalf("setup: %v", st)
	}
	bsess.Close() // the backend connection is gone

	gw := erpc.NewPeer(erpc.PeerConfig{}, proxy.NewCallPlugin(func(*proxy.Label) proxy.CallForwarder { return bsess }))
	cli := erpc.NewPeer(erpc.PeerConfig{})
	d1, d2 := net.Pipe()
	go gw.ServeConn(d1)
	csess, st := cli.ServeConn(d2)
	if !st.OK() {
		t.Fatalf("setup: %v", st)
	}
	var result []byte
	stat := csess.Call("/not/served/here", []byte("x"), &result).Status()
	if stat.Code() != erpc.CodeBadGateway {
		t.Fatalf("REPLAYED: proxied call with the backend connection down reports %d %q instead of 502 Bad Gateway (the proxy handler panicked on the nil reply metadata)", stat.Code(), stat.Msg())
	}
}
