package quic
