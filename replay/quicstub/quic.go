// Stub of package quic used ONLY through `go test -overlay` by the replay
// harness: the real package imports quic-go, whose qtls dependency panics in
// init() on the installed toolchain, so no test binary that links the root
// package can start. Same exported API, no quic-go import. Never written to /repo.
package quic

import (
	"context"
	"crypto/tls"
	"errors"
	"net"
)

type Config struct{ KeepAlive bool }

var errNoQUIC = errors.New("quic: not available in the verification harness")

func DialAddrContext(ctx context.Context, network string, laddr *net.UDPAddr, raddr string, tlsConf *tls.Config, config *Config) (net.Conn, error) {
	return nil, errNoQUIC
}

type Listener struct{ conn net.PacketConn }

var _ net.Listener = (*Listener)(nil)

func ListenAddr(network, addr string, tlsConf *tls.Config, config *Config) (*Listener, error) {
	return nil, errNoQUIC
}
func ListenUDPAddr(network string, udpAddr *net.UDPAddr, tlsConf *tls.Config, config *Config) (*Listener, error) {
	return nil, errNoQUIC
}
func Listen(conn net.PacketConn, tlsConf *tls.Config, config *Config) (*Listener, error) {
	return nil, errNoQUIC
}
func (l *Listener) PacketConn() net.PacketConn { return l.conn }
func (l *Listener) Accept() (net.Conn, error)  { return nil, errNoQUIC }
func (l *Listener) Close() error               { return nil }
func (l *Listener) Addr() net.Addr             { return &net.UDPAddr{} }

type Conn struct{ net.Conn }

func InheritedListen(network, laddr string, tlsConf *tls.Config, config *Config) (net.Listener, error) {
	return nil, errNoQUIC
}
func SetInherited() error { return nil }
